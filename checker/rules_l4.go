package main

import (
	"fmt"
	"go/token"
	"go/types"
	"sort"
	"strings"

	"golang.org/x/tools/go/ssa"
)

func init() {
	registerRule("L4", "consistent guarding: every field that request goroutines access and the writer (or a request) changes is either co-locked on both sides or only changed on objects that are not yet published (fresh, or held in an open slot)",
		ruleL4)
	registerRule("L5", "open-slot ownership: the open-segment/open-part slots only ever receive fresh objects; request code never writes a slot and reads the open-segment slot only behind the hasContent() gate",
		ruleL5)
	registerRule("L6", "lock order is acyclic and registered handlers are invoked with no muxer lock held",
		ruleL6)
}

// ---------------------------------------------------------------------------
// field accesses

type fieldAccess struct {
	fn    *ssa.Function
	instr ssa.Instruction
	field *types.Var
	base  ssa.Value // pointer (or struct value) the field was selected from
	write bool
	kind  string // store, load, mapupdate, delete, elemstore
}

// accessesIn lists the struct-field accesses of fn.
func accessesIn(fn *ssa.Function) []fieldAccess {
	var out []fieldAccess
	allInstrs(fn, func(in ssa.Instruction) {
		switch x := in.(type) {
		case *ssa.Store:
			if f, b := fieldOfAddr(x.Addr); f != nil {
				out = append(out, fieldAccess{fn, in, f, b, true, "store"})
				// a store into a sub-field of a struct-valued field also changes the enclosing field(s)
				for outer := b; ; {
					of, ob := fieldOfAddr(outer)
					if of == nil {
						break
					}
					out = append(out, fieldAccess{fn, in, of, ob, true, "store"})
					outer = ob
				}
			}
			if ia, ok := x.Addr.(*ssa.IndexAddr); ok {
				if f, b := loadedField(ia.X); f != nil {
					out = append(out, fieldAccess{fn, in, f, b, true, "elemstore"})
				}
			}
		case *ssa.MapUpdate:
			if f, b := loadedField(x.Map); f != nil {
				out = append(out, fieldAccess{fn, in, f, b, true, "mapupdate"})
			}
		case *ssa.UnOp:
			if x.Op == token.MUL {
				if f, b := fieldOfAddr(x.X); f != nil {
					out = append(out, fieldAccess{fn, in, f, b, false, "load"})
					for outer := b; ; {
						of, ob := fieldOfAddr(outer)
						if of == nil {
							break
						}
						out = append(out, fieldAccess{fn, in, of, ob, false, "load"})
						outer = ob
					}
				}
			}
		case *ssa.Field:
			if f, b := fieldOfValue(x); f != nil {
				out = append(out, fieldAccess{fn, in, f, b, false, "load"})
			}
		case *ssa.FieldAddr:
			// address taken and passed on (e.g. &p.buffer handed to a callee, &seg.startNTP stored):
			// counted as a read of the field when the address escapes into a call or a store
			for _, ref := range addrEscapes(x, 0) {
				out = append(out, fieldAccess{fn, ref, derefStruct(x.X.Type()).Field(x.Field), x.X, false, "addr"})
			}
		}
		if ci, ok := in.(ssa.CallInstruction); ok {
			if b, isB := ci.Common().Value.(*ssa.Builtin); isB && b.Name() == "delete" {
				if f, bb := loadedField(ci.Common().Args[0]); f != nil {
					out = append(out, fieldAccess{fn, in, f, bb, true, "delete"})
				}
			}
		}
	})
	return out
}

// ---------------------------------------------------------------------------
// slots and publication

// slotFields infers the open slots of muxerStream: pointer/interface fields every store to
// which stores nil or an object allocated in the storing function.
func (c *Ctx) slotFields() (map[*types.Var]bool, []string) {
	if v, ok := c.cache["slots"]; ok {
		x := v.([2]interface{})
		return x[0].(map[*types.Var]bool), x[1].([]string)
	}
	var notes []string
	out := map[*types.Var]bool{}
	ms := c.NamedType("", "muxerStream")
	if ms != nil {
		st := ms.Underlying().(*types.Struct)
		cand := map[*types.Var][]*ssa.Store{}
		for i := 0; i < st.NumFields(); i++ {
			f := st.Field(i)
			switch f.Type().Underlying().(type) {
			case *types.Pointer, *types.Interface:
				if isLibNamed(f.Type()) {
					cand[f] = nil
				}
			}
		}
		for _, fn := range c.Funcs {
			allInstrs(fn, func(in ssa.Instruction) {
				if s, ok := in.(*ssa.Store); ok {
					if f, _ := fieldOfAddr(s.Addr); f != nil {
						if _, isC := cand[f]; isC {
							cand[f] = append(cand[f], s)
						}
					}
				}
			})
		}
		for f, stores := range cand {
			if len(stores) < 2 {
				continue
			}
			all := true
			hasNil, hasFresh := false, false
			for _, s := range stores {
				v := stripConv(s.Val)
				if k, ok := v.(*ssa.Const); ok && k.IsNil() {
					hasNil = true
					continue
				}
				if _, ok := v.(*ssa.Alloc); ok {
					hasFresh = true
					continue
				}
				all = false
			}
			if all && hasNil && hasFresh {
				out[f] = true
				notes = append(notes, "open slot: "+c.fieldName(f))
			}
		}
	}
	sort.Strings(notes)
	c.cache["slots"] = [2]interface{}{out, notes}
	return out, notes
}

// ownedFields: fields every store to which (anywhere in the library) stores a freshly created
// object: an allocation of the storing function or the result of a constructor-like call
// (a library function or interface method all of whose implementations return only fresh
// allocations). The object referenced by an owned field of an unpublished object is unpublished.
func (c *Ctx) ownedField(f *types.Var) bool {
	var memo map[*types.Var]int
	if v, ok := c.cache["owned"]; ok {
		memo = v.(map[*types.Var]int)
	} else {
		memo = map[*types.Var]int{}
		c.cache["owned"] = memo
	}
	if r, ok := memo[f]; ok {
		return r == 1
	}
	memo[f] = 0
	okAll := true
	n := 0
	for _, fn := range c.Funcs {
		allInstrs(fn, func(in ssa.Instruction) {
			s, ok := in.(*ssa.Store)
			if !ok {
				return
			}
			ff, _ := fieldOfAddr(s.Addr)
			if ff != f {
				return
			}
			n++
			if !c.isFreshValue(s.Val, 0) {
				okAll = false
			}
		})
	}
	if n == 0 {
		okAll = false
	}
	if okAll {
		memo[f] = 1
	}
	return okAll
}

// isFreshValue: v is nil, an allocation, an append of fresh values onto an owned slice, or the
// result of a call whose every callee returns fresh values.
func (c *Ctx) isFreshValue(v ssa.Value, depth int) bool {
	if depth > 6 {
		return false
	}
	v = stripConv(v)
	switch x := v.(type) {
	case *ssa.Const:
		return x.IsNil()
	case *ssa.Alloc:
		return true
	case *ssa.Extract:
		return c.isFreshValue(x.Tuple, depth+1)
	case *ssa.Phi:
		for _, e := range x.Edges {
			if !c.isFreshValue(e, depth+1) {
				return false
			}
		}
		return true
	case *ssa.Call:
		if b, ok := x.Call.Value.(*ssa.Builtin); ok && b.Name() == "append" {
			// append(owned slice, fresh element…)
			if sl, ok := x.Call.Args[1].(*ssa.Slice); ok {
				if al, ok := sl.X.(*ssa.Alloc); ok {
					okAll := true
					for _, r := range *al.Referrers() {
						if ia, ok := r.(*ssa.IndexAddr); ok {
							for _, rr := range *ia.Referrers() {
								if st, ok := rr.(*ssa.Store); ok && !c.isFreshValue(st.Val, depth+1) {
									okAll = false
								}
							}
						}
					}
					return okAll
				}
			}
			return false
		}
		callees := c.calleesOf(x)
		if len(callees) == 0 {
			return false
		}
		for _, g := range callees {
			if !c.returnsFresh(g, depth+1) {
				return false
			}
		}
		return true
	}
	return false
}

func (c *Ctx) returnsFresh(fn *ssa.Function, depth int) bool {
	if fn == nil || fn.Blocks == nil || !InLib(fn) {
		return false
	}
	key := "retfresh:" + fn.String()
	if v, ok := c.cache[key]; ok {
		return v.(bool)
	}
	c.cache[key] = false // recursion guard
	okAll := true
	allInstrs(fn, func(in ssa.Instruction) {
		if r, ok := in.(*ssa.Return); ok {
			for _, res := range r.Results {
				t := res.Type().Underlying()
				switch t.(type) {
				case *types.Pointer, *types.Interface:
					if types.Identical(res.Type(), types.Universe.Lookup("error").Type()) {
						continue
					}
					if !c.isFreshValue(res, depth) {
						okAll = false
					}
				}
			}
		}
	})
	c.cache[key] = okAll
	return okAll
}

// publicationSites of value v in its function: instructions after which v is reachable by other
// goroutines: a store of v (or of a slice built by append(…, v)) into a field that is neither a
// slot nor a field of an object allocated in this function; capture by a closure that is not
// immediately called; passing v to a go statement.
func (c *Ctx) publicationSites(v ssa.Value) []ssa.Instruction {
	slots, _ := c.slotFields()
	var out []ssa.Instruction
	seen := map[ssa.Value]bool{}
	var visit func(x ssa.Value)
	visit = func(x ssa.Value) {
		if seen[x] {
			return
		}
		seen[x] = true
		refs := x.Referrers()
		if refs == nil {
			return
		}
		for _, r := range *refs {
			switch y := r.(type) {
			case *ssa.MakeInterface:
				visit(y)
			case *ssa.ChangeInterface:
				visit(y)
			case *ssa.ChangeType:
				visit(y)
			case *ssa.Phi:
				visit(y)
			case *ssa.Store:
				if y.Val != x {
					continue
				}
				if f, base := fieldOfAddr(y.Addr); f != nil {
					if slots[f] {
						continue
					}
					if freshObject(base) {
						continue // stored into an object created here (e.g. part.segment = seg)
					}
					out = append(out, y)
					continue
				}
				if ia, ok := y.Addr.(*ssa.IndexAddr); ok {
					// element of a varargs/append backing array: follow the array to the append call
					if al, ok := ia.X.(*ssa.Alloc); ok {
						for _, rr := range *al.Referrers() {
							if sl, ok := rr.(*ssa.Slice); ok {
								visit(sl)
							}
						}
						continue
					}
				}
				if _, isLocal := y.Addr.(*ssa.Alloc); isLocal {
					// stored into a local variable cell (captured variable): follow loads
					visit(y.Addr.(*ssa.Alloc))
					continue
				}
				out = append(out, y)
			case *ssa.UnOp:
				if y.Op == token.MUL {
					visit(y)
				}
			case *ssa.Call:
				if b, ok := y.Call.Value.(*ssa.Builtin); ok && b.Name() == "append" {
					visit(y)
				}
			case *ssa.MakeClosure:
				// captured: published unless the closure is only called immediately
				immediate := true
				for _, cr := range *y.Referrers() {
					if call, ok := cr.(*ssa.Call); ok && call.Call.Value == y {
						continue
					}
					immediate = false
				}
				if !immediate {
					out = append(out, y)
				}
			case *ssa.Go:
				out = append(out, y)
			}
		}
	}
	visit(v)
	return out
}

// unpubAt decides whether the object v points to is unpublished when `at` executes.
type unpubCtx struct {
	c        *Ctx
	la       *lockAnalysis // writer-side lock analysis
	cls      *lockClass
	stack    map[string]bool
	allSites bool // judge parameters at every writer call site, not only at those made without the lock
}

func (u *unpubCtx) unpubAt(v ssa.Value, at ssa.Instruction, depth int) (bool, string) {
	if depth > 8 {
		return false, "provenance too deep"
	}
	c := u.c
	slots, _ := c.slotFields()
	v0 := v
	// strip wrappers
	for {
		switch x := v.(type) {
		case *ssa.TypeAssert:
			v = x.X
			continue
		case *ssa.MakeInterface:
			v = x.X
			continue
		case *ssa.ChangeInterface:
			v = x.X
			continue
		case *ssa.ChangeType:
			v = x.X
			continue
		case *ssa.Extract:
			if ta, ok := x.Tuple.(*ssa.TypeAssert); ok && x.Index == 0 {
				v = ta.X
				continue
			}
		}
		break
	}
	notYetPublished := func(val ssa.Value) (bool, string) {
		for _, p := range c.publicationSites(val) {
			if p.Parent() != at.Parent() {
				continue
			}
			if p == at || instrReaches(p, at) {
				return false, "published at " + c.Pos(posOf(p)) + " before this point"
			}
		}
		return true, ""
	}
	switch x := v.(type) {
	case *ssa.Alloc:
		if ok, why := notYetPublished(x); !ok {
			return false, why
		}
		return true, "allocated in this function, not yet published here"
	case *ssa.Phi:
		for _, e := range x.Edges {
			if ok, why := u.unpubAt(e, at, depth+1); !ok {
				return false, why
			}
		}
		return true, "all incoming values unpublished"
	case *ssa.UnOp:
		if x.Op != token.MUL {
			return false, "unrecognised provenance"
		}
		// load of a local variable cell
		if al, ok := x.X.(*ssa.Alloc); ok {
			okAll := true
			why := ""
			n := 0
			for _, r := range *al.Referrers() {
				if st, ok := r.(*ssa.Store); ok && st.Addr == al {
					n++
					if ok2, w := u.unpubAt(st.Val, at, depth+1); !ok2 {
						okAll, why = false, w
					}
				}
			}
			if n > 0 && okAll {
				return true, "local holding unpublished values"
			}
			return false, why
		}
		f, base := fieldOfAddr(x.X)
		if f == nil {
			if ia, ok := x.X.(*ssa.IndexAddr); ok {
				// element of a slice held in an owned field of an unpublished object
				if ef, eb := loadedField(ia.X); ef != nil && c.ownedField(ef) {
					if ok, why := u.unpubAt(eb, at, depth+1); ok {
						return true, "element of owned " + c.fieldName(ef) + " of an unpublished object (" + why + ")"
					}
				}
			}
			return false, "loaded from an unrecognised location"
		}
		if slots[f] {
			if ok, why := notYetPublished(x); !ok {
				return false, why
			}
			return true, "taken from open slot " + c.fieldName(f)
		}
		if c.ownedField(f) {
			if ok, why := u.unpubAt(base, at, depth+1); ok {
				return true, "owned field " + c.fieldName(f) + " of an unpublished object (" + why + ")"
			} else {
				return false, "owner of " + c.fieldName(f) + " is not unpublished: " + why
			}
		}
		return false, "loaded from " + c.fieldName(f) + ", which is neither an open slot nor an owned field"
	case *ssa.Parameter:
		fn := x.Parent()
		idx := -1
		for i, p := range fn.Params {
			if p == x {
				idx = i
			}
		}
		key := fmt.Sprintf("%s#%d", fn.String(), idx)
		if u.stack[key] {
			return true, "recursive"
		}
		u.stack[key] = true
		defer delete(u.stack, key)
		edges := c.callersOf(fn)
		if len(edges) == 0 {
			return false, "parameter of a function without resolved callers"
		}
		n := 0
		for _, e := range edges {
			if e.Site == nil {
				continue
			}
			// only call sites the writer reaches without the lock matter
			sts := u.la.statesAt(e.Site)
			if len(sts) == 0 {
				continue // not reached by the writer
			}
			unlocked := false
			for _, s := range sts {
				if !s.st.must.hasW(u.cls) {
					unlocked = true
				}
			}
			if !unlocked && !u.allSites {
				continue
			}
			n++
			args := e.Site.Common().Args
			var arg ssa.Value
			if e.Site.Common().IsInvoke() {
				if idx == 0 {
					arg = e.Site.Common().Value
				} else if idx-1 < len(args) {
					arg = args[idx-1]
				}
			} else if idx < len(args) {
				arg = args[idx]
			}
			if arg == nil {
				return false, "argument not resolved at " + c.Pos(e.Site.Pos())
			}
			if ok, why := u.unpubAt(arg, e.Site, depth+1); !ok {
				return false, "argument at " + c.Pos(e.Site.Pos()) + " (" + FuncName(e.Caller.Func) + "): " + why
			}
		}
		if n == 0 && u.allSites {
			return false, "parameter of a function the writer never calls"
		}
		return true, fmt.Sprintf("parameter unpublished at all %d relevant call sites", n)
	case *ssa.FreeVar:
		return false, "captured variable of a closure (published with the closure)"
	}
	_ = v0
	return false, "unrecognised provenance " + v.Name()
}

// instrReaches: b is reachable from a (a executes, then possibly b).
func instrReaches(a, b ssa.Instruction) bool {
	if a.Parent() != b.Parent() {
		return false
	}
	if a.Block() == b.Block() && instrIndex(a) < instrIndex(b) {
		return true
	}
	seen := map[int]bool{}
	var stack []int
	for _, s := range a.Block().Succs {
		stack = append(stack, s.Index)
	}
	for len(stack) > 0 {
		i := stack[len(stack)-1]
		stack = stack[:len(stack)-1]
		if seen[i] {
			continue
		}
		seen[i] = true
		if i == b.Block().Index {
			return true
		}
		for _, s := range a.Parent().Blocks[i].Succs {
			stack = append(stack, s.Index)
		}
	}
	return false
}

// ---------------------------------------------------------------------------
// L4

func ruleL4(c *Ctx) *RuleResult {
	r := &RuleResult{Floor: 25, FloorWhat: "fields shared between the writer and request goroutines"}
	li := c.locks()
	for _, p := range li.problems {
		r.undecided("%s", p)
	}
	ro := c.roles()
	laW := c.lockAnalysisFor("W", ro.W)
	laR := c.lockAnalysisFor("R", ro.R)
	for _, u := range append(append([]string{}, laW.unresolved...), laR.unresolved...) {
		r.undecided("%s", u)
	}
	slots, slotNotes := c.slotFields()
	r.Notes = append(r.Notes, slotNotes...)
	muxCls := li.byField[c.Field("", "Muxer", "mutex")]
	if muxCls == nil {
		r.undecided("lock class Muxer.mutex not found")
		return r
	}

	type site struct {
		a      fieldAccess
		must   lockset
		perCtx []lockset
		fresh  bool
	}
	collect := func(la *lockAnalysis) map[*types.Var][]site {
		out := map[*types.Var][]site{}
		for _, fn := range la.functions() {
			for _, a := range accessesIn(fn) {
				sts := la.statesAt(a.instr)
				if len(sts) == 0 {
					continue
				}
				s := site{a: a, must: ^lockset(0)}
				for _, st := range sts {
					s.must &= st.st.must
					s.perCtx = append(s.perCtx, st.st.must)
				}
				out[a.field] = append(out[a.field], s)
			}
		}
		return out
	}
	wAcc := collect(laW)
	rAcc := collect(laR)

	var fields []*types.Var
	for f := range rAcc {
		fields = append(fields, f)
	}
	sort.Slice(fields, func(i, j int) bool { return c.fieldName(fields[i]) < c.fieldName(fields[j]) })

	roots := append(append([]*ssa.Function{}, ro.W...), ro.R...)
	shared := 0
	reqLocal := c.requestLocalTypes(laW, laR)
	for t := range reqLocal {
		r.Notes = append(r.Notes, "request-local type (allocated only by request code, never stored into shared state): "+t)
	}
	sort.Strings(r.Notes)
	for _, f := range fields {
		fname := c.fieldName(f)
		if reqLocal[c.fieldOwner(f)] {
			continue
		}
		// request-side accesses on objects that are not fresh in the accessing function
		var rs []site
		for _, s := range rAcc[f] {
			if freshObject(s.a.base) {
				continue
			}
			rs = append(rs, s)
		}
		if len(rs) == 0 {
			continue
		}
		var ws []site
		for _, s := range wAcc[f] {
			if s.a.write {
				ws = append(ws, s)
			}
		}
		var rws []site
		for _, s := range rs {
			if s.a.write {
				rws = append(rws, s)
			}
		}
		if len(ws) == 0 && len(rws) == 0 {
			continue // never changed after Start by the writer or a request: read-only sharing
		}
		shared++
		// try each lock class; report against the best one
		type verdict struct {
			cls   *lockClass
			fails []Obl
			oks   []Obl
		}
		var best *verdict
		for _, cls := range li.classes {
			v := &verdict{cls: cls}
			uc := &unpubCtx{c: c, la: laW, cls: cls, stack: map[string]bool{}}
			reliesOnLock := len(rws) > 0
			cnt := map[string]int{}
			for _, s := range ws {
				cnt[FuncName(s.a.fn)]++
				key := fmt.Sprintf("%s|W %s %s#%d", fname, s.a.kind, FuncName(s.a.fn), cnt[FuncName(s.a.fn)])
				what := "writer changes " + fname + " only under " + cls.Name + " or on an object that is not yet published"
				if s.must.hasW(cls) {
					// locked in every context: does the store rely on the lock, i.e. can the object already be published?
					ucAll := &unpubCtx{c: c, la: laW, cls: cls, stack: map[string]bool{}, allSites: true}
					if up, _ := ucAll.unpubAt(s.a.base, s.a.instr, 0); !up {
						reliesOnLock = true
					}
					v.oks = append(v.oks, Obl{Key: key, Pos: c.Pos(posOf(s.a.instr)), Func: FuncName(s.a.fn), What: what, OK: true, Why: "holds " + cls.Name + " in every calling context"})
					continue
				}
				if ex := unlockedStoreExempt[FuncName(s.a.fn)+"|"+fname]; ex != "" {
					v.oks = append(v.oks, Obl{Key: key, Pos: c.Pos(posOf(s.a.instr)), Func: FuncName(s.a.fn), What: what, OK: true, Why: "exempt (frozen table, side conditions checked by L5): " + ex})
					continue
				}
				up, why := uc.unpubAt(s.a.base, s.a.instr, 0)
				if up {
					anyLocked := false
					for _, m := range s.perCtx {
						if m.hasW(cls) {
							anyLocked = true
						}
					}
					if anyLocked {
						// some contexts rely on the lock (object may be published there)
						reliesOnLock = true
					}
					v.oks = append(v.oks, Obl{Key: key, Pos: c.Pos(posOf(s.a.instr)), Func: FuncName(s.a.fn), What: what, OK: true, Why: "unlocked contexts only reach unpublished objects: " + why})
					continue
				}
				v.fails = append(v.fails, Obl{Key: key, Pos: c.Pos(posOf(s.a.instr)), Func: FuncName(s.a.fn), What: what,
					Why:  "must-held set " + li.names(s.must) + " and the object may already be visible to request goroutines (" + why + ")",
					Path: c.reachPath(ro.W, s.a.fn)})
			}
			cnt = map[string]int{}
			for _, s := range rs {
				cnt[FuncName(s.a.fn)]++
				mode := "R read"
				if s.a.write {
					mode = "R write"
				}
				key := fmt.Sprintf("%s|%s %s#%d", fname, mode, FuncName(s.a.fn), cnt[FuncName(s.a.fn)])
				what := "request code accesses " + fname + " under the lock its writers hold, unless the field is frozen before publication"
				held := s.must.has(cls)
				if s.a.write {
					held = s.must.hasW(cls)
				}
				if held {
					v.oks = append(v.oks, Obl{Key: key, Pos: c.Pos(posOf(s.a.instr)), Func: FuncName(s.a.fn), What: what, OK: true, Why: "holds " + cls.Name})
					continue
				}
				viaSlot := false
				if lf, _ := loadedField(stripAsserts(s.a.base)); lf != nil && slots[lf] {
					viaSlot = true
				}
				if !reliesOnLock && !viaSlot && !s.a.write {
					v.oks = append(v.oks, Obl{Key: key, Pos: c.Pos(posOf(s.a.instr)), Func: FuncName(s.a.fn), What: what, OK: true, Why: "unlocked read of a field that is only written before its object is published (publication orders the writes before this read)"})
					continue
				}
				if ex := unlockedReadExempt[fname+"|"+FuncName(s.a.fn)]; ex != "" && !s.a.write {
					v.oks = append(v.oks, Obl{Key: key, Pos: c.Pos(posOf(s.a.instr)), Func: FuncName(s.a.fn), What: what, OK: true, Why: "exempt (frozen table): " + ex})
					continue
				}
				why := "must-held set " + li.names(s.must)
				if viaSlot {
					why += "; object reached through an open slot, so it may still be written by the writer"
				} else if reliesOnLock {
					why += "; at least one writer of this field relies on " + cls.Name + " (the object is already published when it is written)"
				}
				v.fails = append(v.fails, Obl{Key: key, Pos: c.Pos(posOf(s.a.instr)), Func: FuncName(s.a.fn), What: what, Why: why, Path: c.reachPath(roots, s.a.fn)})
			}
			if best == nil || len(v.fails) < len(best.fails) || (len(v.fails) == len(best.fails) && cls == muxCls) {
				best = v
			}
			if len(v.fails) == 0 && cls == muxCls {
				break
			}
		}
		for _, o := range best.oks {
			r.add(o)
		}
		for _, o := range best.fails {
			r.add(o)
		}
	}
	r.Instances = shared
	return r
}

func stripAsserts(v ssa.Value) ssa.Value {
	for {
		switch x := v.(type) {
		case *ssa.TypeAssert:
			v = x.X
		case *ssa.MakeInterface:
			v = x.X
		case *ssa.ChangeInterface:
			v = x.X
		case *ssa.Extract:
			if ta, ok := x.Tuple.(*ssa.TypeAssert); ok && x.Index == 0 {
				v = ta.X
				continue
			}
			return v
		default:
			return v
		}
	}
}

// ---------------------------------------------------------------------------
// L5

func ruleL5(c *Ctx) *RuleResult {
	r := &RuleResult{Floor: 2, FloorWhat: "slot obligations"}
	slots, notes := c.slotFields()
	r.Notes = notes
	if len(slots) < 2 {
		r.undecided("expected 2 open slots (open segment, open part), inferred %d", len(slots))
		return r
	}
	ro := c.roles()
	rset := c.reachRole(ro.R)
	hasContent := c.Method("", "muxerStream", "hasContent")
	if hasContent == nil {
		r.undecided("(*muxerStream).hasContent not found")
		return r
	}
	// gate functions: hasContent itself, and every boolean helper that returns true only after a gate function
	// returned true (`waitForContent`: loop { if closed return false; if hasContent() return true; Wait }).
	gateFns := map[*ssa.Function]bool{hasContent: true}
	isGateCall := func(v ssa.Value) bool {
		call, ok := v.(*ssa.Call)
		return ok && gateFns[call.Call.StaticCallee()]
	}
	for changed := true; changed; {
		changed = false
		for fn := range rset {
			if gateFns[fn] || !InLib(fn) || fn.Blocks == nil || fn.Signature.Results().Len() != 1 {
				continue
			}
			if b, ok := fn.Signature.Results().At(0).Type().Underlying().(*types.Basic); !ok || b.Kind() != types.Bool {
				continue
			}
			conds := ifsOn(fn, isGateCall)
			if len(conds) == 0 {
				continue
			}
			okAll, nTrue := true, 0
			for _, b := range fn.Blocks {
				ret, ok := b.Instrs[len(b.Instrs)-1].(*ssa.Return)
				if !ok {
					continue
				}
				rv := retVal(ret, 0)
				if bv, isB := constBool(rv); isB {
					if bv {
						nTrue++
						if !onlyIf(fn, ret, conds, true) {
							okAll = false
						}
					}
					continue
				}
				// a computed result (`return msn < s.nextSegmentID`): it can only be true behind the gate if the
				// return itself lies behind it
				nTrue++
				if !onlyIf(fn, ret, conds, true) {
					okAll = false
				}
			}
			if okAll && nTrue > 0 {
				gateFns[fn] = true
				changed = true
			}
		}
	}
	// gate: a function is gated if every call site (in request code) is control dependent on
	// hasContent() == true, or lies in a gated function.
	gated := map[*ssa.Function]int{} // 0 unknown, 1 gated, 2 not, 3 in progress
	var gateWhy func(fn *ssa.Function) (bool, string)
	gateWhy = func(fn *ssa.Function) (bool, string) {
		switch gated[fn] {
		case 1:
			return true, ""
		case 2:
			return false, "see above"
		case 3:
			return true, ""
		}
		gated[fn] = 3
		n := 0
		for _, e := range c.callersOf(fn) {
			if e.Site == nil || !rset[e.Caller.Func] {
				continue
			}
			n++
			caller := e.Caller.Func
			conds := ifsOn(caller, isGateCall)
			if len(conds) > 0 && onlyIf(caller, e.Site, conds, true) {
				continue
			}
			if ok, why := gateWhy(caller); ok {
				continue
			} else {
				gated[fn] = 2
				if why == "" || why == "see above" {
					why = "call at " + c.Pos(e.Site.Pos()) + " in " + FuncName(caller) + " is not control dependent on hasContent()"
				}
				return false, why
			}
		}
		if n == 0 {
			gated[fn] = 2
			return false, FuncName(fn) + " is a request entry point (no gated caller)"
		}
		gated[fn] = 1
		return true, ""
	}
	var rf []*ssa.Function
	for fn := range rset {
		if InLib(fn) && fn.Blocks != nil {
			rf = append(rf, fn)
		}
	}
	sort.Slice(rf, func(i, j int) bool { return rf[i].String() < rf[j].String() })
	for _, fn := range rf {
		cnt := 0
		for _, a := range accessesIn(fn) {
			if !slots[a.field] {
				continue
			}
			cnt++
			key := fmt.Sprintf("%s|%s#%d", FuncName(fn), c.fieldName(a.field), cnt)
			if a.write {
				r.fail(key, c.Pos(posOf(a.instr)), FuncName(fn), "request code never writes an open slot", "store to "+c.fieldName(a.field))
				continue
			}
			conds := ifsOnV(fn, isGateCall)
			if len(conds) > 0 && onlyIf(fn, a.instr, conds, true) {
				r.ok(key, c.Pos(posOf(a.instr)), FuncName(fn), "request code reads the open-segment slot only after hasContent() returned true in the same critical section", "control dependent on hasContent() in this function")
				continue
			}
			if ok, why := gateWhy(fn); ok {
				r.ok(key, c.Pos(posOf(a.instr)), FuncName(fn), "request code reads the open-segment slot only after hasContent() returned true in the same critical section", "every request-side call path into this function is gated by hasContent()")
			} else {
				r.fail(key, c.Pos(posOf(a.instr)), FuncName(fn), "request code reads the open-segment slot only after hasContent() returned true in the same critical section",
					"ungated path: "+why+" — the slot may still be unset, or concurrently set by the first write without the lock")
			}
		}
	}
	// slot stores outside the lock are limited to the frozen table; the table's functions must
	// only run while the slot is empty: every call site is control dependent on `slot == nil`
	for k := range unlockedStoreExempt {
		parts := strings.SplitN(k, "|", 2)
		var fn *ssa.Function
		for _, f := range c.Funcs {
			if FuncName(f) == parts[0] {
				fn = f
			}
		}
		if fn == nil {
			continue
		}
		key := "exempt|" + k
		// all callers up to the writer entry must reach it only when nextSegment == nil
		okAll, why := c.onlyWhenSlotEmpty(fn, slots, 0)
		if okAll {
			r.ok(key, c.Pos(fn.Pos()), FuncName(fn), "the unlocked slot initialiser only runs while the open-segment slot is empty", why)
		} else {
			r.fail(key, c.Pos(fn.Pos()), FuncName(fn), "the unlocked slot initialiser only runs while the open-segment slot is empty", why)
		}
	}
	return r
}

// onlyWhenSlotEmpty: every call chain into fn passes a call site that is control dependent on
// `<slot> == nil`.
func (c *Ctx) onlyWhenSlotEmpty(fn *ssa.Function, slots map[*types.Var]bool, depth int) (bool, string) {
	if depth > 5 {
		return false, "call chain too deep"
	}
	edges := c.callersOf(fn)
	if len(edges) == 0 {
		return false, FuncName(fn) + " has no callers"
	}
	for _, e := range edges {
		if e.Site == nil {
			continue
		}
		caller := e.Caller.Func
		conds := ifsOnV(caller, func(v ssa.Value) bool {
			b, ok := v.(*ssa.BinOp)
			if !ok || (b.Op != token.EQL && b.Op != token.NEQ) {
				return false
			}
			var other ssa.Value
			if k, ok := b.Y.(*ssa.Const); ok && k.IsNil() {
				other = b.X
			} else if k, ok := b.X.(*ssa.Const); ok && k.IsNil() {
				other = b.Y
			} else {
				return false
			}
			f, _ := loadedField(other)
			return f != nil && slots[f] && b.Op == token.EQL
		})
		if len(conds) > 0 && onlyIf(caller, e.Site, conds, true) {
			continue
		}
		if ok, why := c.onlyWhenSlotEmpty(caller, slots, depth+1); !ok {
			return false, "call at " + c.Pos(e.Site.Pos()) + " in " + FuncName(caller) + " is not guarded by `slot == nil` (" + why + ")"
		}
	}
	return true, "every call chain is guarded by `open-segment slot == nil`"
}

// ---------------------------------------------------------------------------
// L6

func ruleL6(c *Ctx) *RuleResult {
	r := &RuleResult{Floor: 3, FloorWhat: "lock acquisitions and dynamic handler invocations"}
	li := c.locks()
	la := c.muxerLockAnalysis()
	lc := c.clientLockAnalysis()
	type ord struct{ a, b *lockClass }
	edges := map[ord]string{}
	n := 0
	scan := func(la *lockAnalysis) {
		for _, fn := range la.functions() {
			allInstrs(fn, func(in ssa.Instruction) {
				call, ok := in.(*ssa.Call)
				if !ok {
					return
				}
				op := classifySync(&call.Call)
				if op == opLock || op == opRLock {
					cls := li.lockOfReceiver(call.Call.Args[0])
					if cls == nil {
						return
					}
					n++
					_, may, reached := la.heldAt(in)
					if !reached {
						return
					}
					for _, o := range li.classes {
						if may.has(o) {
							if o == cls {
								r.fail(fmt.Sprintf("%s|relock %s", FuncName(fn), cls.Name), c.Pos(in.Pos()), FuncName(fn),
									"a non-reentrant lock is never acquired while it may already be held", cls.Name+" may already be held here (self-deadlock)",
									c.reachPath(la.roots, fn)...)
								continue
							}
							edges[ord{o, cls}] = c.Pos(in.Pos()) + " in " + FuncName(fn)
						}
					}
				}
			})
		}
	}
	scan(la)
	scan(lc)
	// cycle check on the small order graph
	for e, where := range edges {
		key := "order|" + e.a.Name + "->" + e.b.Name
		if _, rev := edges[ord{e.b, e.a}]; rev {
			r.fail(key, where, "", "the lock-order graph is acyclic", e.a.Name+" → "+e.b.Name+" and the reverse edge both exist")
		} else {
			r.ok(key, where, "", "the lock-order graph is acyclic", "edge "+e.a.Name+" → "+e.b.Name+", no reverse edge")
		}
	}
	// dynamic handler invocations with an empty may-held set
	ro := c.roles()
	hset := map[*ssa.Function]bool{}
	for _, h := range ro.Handlers {
		hset[h] = true
	}
	for _, fn := range la.functions() {
		cnt := 0
		allInstrs(fn, func(in ssa.Instruction) {
			ci, ok := in.(ssa.CallInstruction)
			if !ok || ci.Common().StaticCallee() != nil || ci.Common().IsInvoke() {
				return
			}
			callsHandler := false
			for _, g := range c.calleesOf(ci) {
				if hset[g] {
					callsHandler = true
				}
			}
			if !callsHandler {
				return
			}
			n++
			cnt++
			key := fmt.Sprintf("%s|handler-call#%d", FuncName(fn), cnt)
			_, may, reached := la.heldAt(in)
			if !reached {
				return
			}
			if may == 0 {
				r.ok(key, c.Pos(in.Pos()), FuncName(fn), "registered handlers are invoked with no lock held (they take the muxer mutex themselves)", "may-held set is empty")
			} else {
				r.fail(key, c.Pos(in.Pos()), FuncName(fn), "registered handlers are invoked with no lock held (they take the muxer mutex themselves)", "may-held set "+li.names(may)+": the handler blocks forever on a non-reentrant mutex")
			}
		})
	}
	r.Instances = n
	return r
}

// requestLocalTypes: library struct types every allocation of which happens in a function that
// only request goroutines run, and pointers to which are never stored into a field, a global or
// a channel by library code. Such objects are confined to the request goroutine that created them.
func (c *Ctx) requestLocalTypes(laW, laR *lockAnalysis) map[string]bool {
	allocIn := map[string][]*ssa.Function{}
	escaped := map[string]bool{}
	name := func(t types.Type) string {
		n := namedOf(t)
		if n == nil || n.Obj().Pkg() == nil || !isLibPkgPath(n.Obj().Pkg().Path()) {
			return ""
		}
		if _, ok := n.Underlying().(*types.Struct); !ok {
			return ""
		}
		return n.Obj().Name()
	}
	for _, fn := range c.Funcs {
		allInstrs(fn, func(in ssa.Instruction) {
			switch x := in.(type) {
			case *ssa.Alloc:
				if x.Heap {
					if n := name(x.Type()); n != "" {
						allocIn[n] = append(allocIn[n], fn)
					}
				}
			case *ssa.Store:
				if n := name(stripConv(x.Val).Type()); n != "" {
					if _, isPtr := stripConv(x.Val).Type().Underlying().(*types.Pointer); isPtr {
						if _, local := x.Addr.(*ssa.Alloc); !local {
							escaped[n] = true
						}
					}
				}
			case *ssa.Send:
				if n := name(stripConv(x.X).Type()); n != "" {
					escaped[n] = true
				}
			case *ssa.MakeClosure:
				for _, b := range x.Bindings {
					if n := name(b.Type()); n != "" {
						escaped[n] = true
					}
				}
			case *ssa.MapUpdate:
				if n := name(stripConv(x.Value).Type()); n != "" {
					escaped[n] = true
				}
			}
		})
	}
	out := map[string]bool{}
	for n, fns := range allocIn {
		if escaped[n] {
			continue
		}
		ok := true
		for _, fn := range fns {
			if len(laR.ctxsOf[fn]) == 0 || len(laW.ctxsOf[fn]) > 0 {
				ok = false
			}
		}
		if ok {
			out[n] = true
		}
	}
	return out
}

// ---------------------------------------------------------------------------
// L8: functions that must run entirely inside the muxer's critical section

func init() {
	registerRule("L8", "one critical section: per-stream rotations and every playlist generator are only ever entered with Muxer.mutex held (all streams are cut, and each playlist is rendered, in one critical section)", ruleL8)
}

func ruleL8(c *Ctx) *RuleResult {
	r := &RuleResult{Floor: 6, FloorWhat: "functions that must be entered with the muxer mutex held"}
	li := c.locks()
	cls := li.byField[c.Field("", "Muxer", "mutex")]
	if cls == nil {
		r.undecided("lock class Muxer.mutex not found")
		return r
	}
	la := c.muxerLockAnalysis()
	targets := []struct{ typ, name, why string }{
		{"muxerStream", "rotateSegments", "all streams of a muxer are cut inside one critical section"},
		{"muxerStream", "rotateParts", "all streams of a muxer rotate their parts inside one critical section"},
		{"Muxer", "rotateSegmentsInner", "the loop over all streams runs under the lock"},
		{"Muxer", "rotatePartsInner", "the loop over all streams runs under the lock"},
		{"muxerStream", "generateMediaPlaylistFMP4", "a media playlist is a snapshot of one muxer state"},
		{"muxerStream", "generateMediaPlaylistMPEGTS", "a media playlist is a snapshot of one muxer state"},
		{"Muxer", "generateMultivariantPlaylist", "the multivariant playlist is a snapshot of one muxer state"},
		{"muxerStream", "populateMultivariantPlaylist", "codec parameters are read under the lock their writer takes"},
		{"muxerStream", "hasPart", "the blocking-reload predicate is evaluated under the lock"},
		{"muxerStream", "hasContent", "the wait predicate is evaluated under the lock"},
	}
	for _, t := range targets {
		fn := c.Method("", t.typ, t.name)
		key := t.typ + "." + t.name + "|entry-lockset"
		if fn == nil && t.typ == "Muxer" && strings.HasSuffix(t.name, "Inner") {
			fn = c.muxerFanOut(strings.TrimSuffix(t.name, "Inner"))
		}
		if fn == nil {
			r.undecided("%s.%s not found", t.typ, t.name)
			continue
		}
		ctxs := la.ctxsOf[fn]
		if len(ctxs) == 0 {
			r.fail(key, c.Pos(fn.Pos()), FuncName(fn), t.why+": "+cls.Name+" is held at every entry", "the function is not reachable from any muxer entry point")
			continue
		}
		bad := ""
		for _, fc := range ctxs {
			if !fc.must.hasW(cls) {
				bad = "entered with must-held set " + li.names(fc.must)
			}
		}
		if bad == "" {
			r.ok(key, c.Pos(fn.Pos()), FuncName(fn), t.why+": "+cls.Name+" is held at every entry", fmt.Sprintf("%d calling context(s), all hold it", len(ctxs)))
		} else {
			var chain []string
			for _, e := range c.callersOf(fn) {
				if e.Site != nil {
					if must, _, ok := la.heldAt(e.Site); ok && !must.hasW(cls) {
						chain = append(chain, "called without the lock at "+c.Pos(e.Site.Pos())+" in "+FuncName(e.Caller.Func))
					}
				}
			}
			r.fail(key, c.Pos(fn.Pos()), FuncName(fn), t.why+": "+cls.Name+" is held at every entry", bad, chain...)
		}
	}
	return r
}

// addrEscapes: instructions through which the address of a field (or of a sub-field of it) is handed to a callee or
// converted to an interface — the callee reads (at least) the field.
func addrEscapes(x *ssa.FieldAddr, depth int) []ssa.Instruction {
	var out []ssa.Instruction
	if depth > 4 || x.Referrers() == nil {
		return out
	}
	for _, ref := range *x.Referrers() {
		switch r := ref.(type) {
		case *ssa.Call:
			if classifySync(&r.Call) == opNone {
				out = append(out, ref)
			}
		case *ssa.MakeInterface:
			out = append(out, ref)
		case *ssa.FieldAddr:
			out = append(out, addrEscapes(r, depth+1)...)
		}
	}
	return out
}

// ---------------------------------------------------------------------------
// L5b: a slot that request code dereferences is never left empty

func init() {
	registerRule("L5b", "the open-segment slot is never left empty: every writer path that empties a slot which request code dereferences refills it before it returns (also on error paths), because requests assert its type without a nil test", ruleL5b)
}

func ruleL5b(c *Ctx) *RuleResult {
	r := &RuleResult{Floor: 1, FloorWhat: "dereferences of an open slot in request code"}
	slots, _ := c.slotFields()
	ro := c.roles()
	rset := c.reachRole(ro.R)
	// request-side dereferences of a slot (single-value type assertion on the loaded interface)
	deref := map[*types.Var]string{}
	n := 0
	var rfns []*ssa.Function
	for fn := range rset {
		if InRootPkg(fn) && fn.Blocks != nil {
			rfns = append(rfns, fn)
		}
	}
	sortFuncs(rfns)
	for _, fn := range rfns {
		cnt := 0
		allInstrs(fn, func(in ssa.Instruction) {
			ta, ok := in.(*ssa.TypeAssert)
			if !ok || ta.CommaOk {
				return
			}
			f, _ := loadedField(ta.X)
			if f == nil || !slots[f] {
				return
			}
			n++
			cnt++
			key := fmt.Sprintf("%s|assert %s#%d", FuncName(fn), c.fieldName(f), cnt)
			if nonNilFact(factsAt(in.Block()), ta.X) {
				r.ok(key, c.Pos(ta.Pos()), FuncName(fn), "request code asserts the type of an open slot only where the slot is known to be non-empty, or the writer never leaves it empty", "dominated by a non-nil test of the slot")
			} else {
				deref[f] = c.Pos(ta.Pos()) + " in " + FuncName(fn)
				// decided by the writer-side obligations below
				r.ok(key, c.Pos(ta.Pos()), FuncName(fn), "request code asserts the type of an open slot only where the slot is known to be non-empty, or the writer never leaves it empty", "no nil test here: relies on the writer never leaving the slot empty (obligations below)")
			}
		})
	}
	wset := c.reachRole(ro.W)
	for f, where := range deref {
		for _, fn := range c.Funcs {
			if !wset[fn] {
				continue
			}
			var nilStores []*ssa.Store
			for _, st := range storesToField(c, fn, f) {
				if k, ok := st.Val.(*ssa.Const); ok && k.IsNil() {
					nilStores = append(nilStores, st)
				}
			}
			if len(nilStores) == 0 {
				continue
			}
			refill := func(x ssa.Instruction) bool {
				if st, ok := x.(*ssa.Store); ok {
					if ff, _ := fieldOfAddr(st.Addr); ff == f {
						if k, isC := st.Val.(*ssa.Const); !isC || !k.IsNil() {
							return true
						}
					}
				}
				return false
			}
			seenKey := map[string]bool{}
			allInstrs(fn, func(in ssa.Instruction) {
				ret, ok := in.(*ssa.Return)
				if !ok {
					return
				}
				for _, ns := range nilStores {
					if !instrReaches(ns, ret) {
						continue
					}
					if !pathAvoidingRaw(fn, ns, refill, func(x ssa.Instruction) bool { return x == ret }) {
						continue
					}
					cause := "success return"
					if !isSuccessReturn(ret) {
						cause = "error return"
						res := fn.Signature.Results()
						for i := 0; i < res.Len(); i++ {
							if types.Identical(res.At(i).Type(), types.Universe.Lookup("error").Type()) {
								cause = "error of " + errorOrigin(retVal(ret, i), 0)
							}
						}
					}
					key := fmt.Sprintf("%s|%s left empty|%s", FuncName(fn), c.fieldName(f), cause)
					if seenKey[key] {
						continue
					}
					seenKey[key] = true
					r.fail(key, c.Pos(posOf(ret)), FuncName(fn), "every path that empties "+c.fieldName(f)+" refills it before returning",
						"this return leaves the slot nil; the next playlist request asserts its type without a nil test ("+where+") and panics inside Handle")
				}
			})
			if len(seenKey) == 0 {
				r.ok(FuncName(fn)+"|"+c.fieldName(f)+" refilled", c.Pos(fn.Pos()), FuncName(fn), "every path that empties "+c.fieldName(f)+" refills it before returning", "no return reachable with the slot empty")
			}
		}
	}
	r.Instances = n
	return r
}

// errorOrigin names the call an error value comes from.
func errorOrigin(v ssa.Value, depth int) string {
	if depth > 4 {
		return "?"
	}
	switch x := v.(type) {
	case *ssa.Call:
		if f := x.Call.StaticCallee(); f != nil {
			return FuncName(f)
		}
		if x.Call.IsInvoke() {
			return x.Call.Method.Name()
		}
	case *ssa.Extract:
		return errorOrigin(x.Tuple, depth+1)
	case *ssa.Phi:
		var parts []string
		for _, e := range x.Edges {
			if k, ok := e.(*ssa.Const); ok && k.IsNil() {
				continue
			}
			parts = append(parts, errorOrigin(e, depth+1))
		}
		return strings.Join(parts, "/")
	}
	return v.Name()
}
