package main
