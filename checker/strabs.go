package main

import (
	"go/token"
	"go/types"
	"strings"

	"golang.org/x/tools/go/ssa"
)

// Abstract interpretation of string-building SSA (DESIGN rule family S).
// Abstract value: set of possible first characters, set of possible last characters (by class),
// and whether the string may be empty.

type sclass uint8

const (
	cHash sclass = 1 << iota
	cComma
	cColon
	cEq
	cQuote
	cNL
	cOther
)

func classOf(b byte) sclass {
	switch b {
	case '#':
		return cHash
	case ',':
		return cComma
	case ':':
		return cColon
	case '=':
		return cEq
	case '"':
		return cQuote
	case '\n':
		return cNL
	}
	return cOther
}

func (s sclass) String() string {
	var out []string
	names := []string{"#", ",", ":", "=", "\"", "\\n", "other"}
	for i, n := range names {
		if s&(1<<uint(i)) != 0 {
			out = append(out, n)
		}
	}
	return "{" + strings.Join(out, " ") + "}"
}

type sabs struct {
	first, last sclass
	mayEmpty    bool
	mustEmpty   bool
}

func absConst(s string) sabs {
	if s == "" {
		return sabs{mayEmpty: true, mustEmpty: true}
	}
	return sabs{first: classOf(s[0]), last: classOf(s[len(s)-1])}
}

func absUnknown() sabs  { return sabs{first: cOther, last: cOther, mayEmpty: true} }
func absNonEmpty() sabs { return sabs{first: cOther, last: cOther} }

func (a sabs) join(b sabs) sabs {
	if a == (sabs{}) {
		return b
	}
	return sabs{first: a.first | b.first, last: a.last | b.last, mayEmpty: a.mayEmpty || b.mayEmpty, mustEmpty: a.mustEmpty && b.mustEmpty}
}

func absConcat(a, b sabs) sabs {
	r := sabs{}
	r.first = a.first
	if a.mayEmpty {
		r.first |= b.first
	}
	r.last = b.last
	if b.mayEmpty {
		r.last |= a.last
	}
	r.mayEmpty = a.mayEmpty && b.mayEmpty
	r.mustEmpty = a.mustEmpty && b.mustEmpty
	return r
}

type junction struct {
	at    ssa.Instruction
	left  sclass // possible last chars of the left part
	right sclass // possible first chars of the right part
	desc  string
}

type strInterp struct {
	c         *Ctx
	memo      map[ssa.Value]sabs
	busy      map[ssa.Value]bool
	fnRet     map[*ssa.Function]sabs
	fnBusy    map[*ssa.Function]bool
	junctions []junction
	jseen     map[ssa.Instruction]bool
	phiVal    map[*ssa.Phi]sabs
	phiElems  map[*ssa.Phi]sabs
	builders  map[*ssa.Function]*builderModel
}

func newStrInterp(c *Ctx) *strInterp {
	return &strInterp{c: c, memo: map[ssa.Value]sabs{}, busy: map[ssa.Value]bool{}, fnRet: map[*ssa.Function]sabs{}, fnBusy: map[*ssa.Function]bool{}, jseen: map[ssa.Instruction]bool{}}
}

func isStringType(t types.Type) bool {
	b, ok := t.Underlying().(*types.Basic)
	return ok && b.Info()&types.IsString != 0
}

// solve runs the analysis over the given functions: phi values are iterated to a fixpoint
// (the domain is finite and all transfer functions are monotone), then a final pass records
// the junctions of every concatenation.
func (si *strInterp) solve(funcs []*ssa.Function) {
	var phis []*ssa.Phi
	for _, fn := range funcs {
		allInstrs(fn, func(in ssa.Instruction) {
			if p, ok := in.(*ssa.Phi); ok {
				phis = append(phis, p)
			}
		})
	}
	si.phiVal = map[*ssa.Phi]sabs{}
	si.phiElems = map[*ssa.Phi]sabs{}
	for iter := 0; iter < 30; iter++ {
		changed := false
		si.memo = map[ssa.Value]sabs{}
		si.fnRet = map[*ssa.Function]sabs{}
		si.junctions = nil
		si.builders = nil
		for _, p := range phis {
			if isStringType(p.Type()) {
				nxt := sabs{}
				for _, e := range p.Edges {
					nxt = nxt.join(si.eval(e))
				}
				if j := si.phiVal[p].join(nxt); j != si.phiVal[p] {
					si.phiVal[p] = j
					changed = true
				}
			} else if _, ok := p.Type().Underlying().(*types.Slice); ok {
				nxt := sabs{}
				for _, e := range p.Edges {
					nxt = nxt.join(si.sliceElems(e, 0))
				}
				if j := si.phiElems[p].join(nxt); j != si.phiElems[p] {
					si.phiElems[p] = j
					changed = true
				}
			}
		}
		if !changed {
			break
		}
	}
	si.memo = map[ssa.Value]sabs{}
	si.fnRet = map[*ssa.Function]sabs{}
	si.junctions = nil
	si.builders = nil
	for _, fn := range funcs {
		allInstrs(fn, func(in ssa.Instruction) {
			if v, ok := in.(ssa.Value); ok && isStringType(v.Type()) {
				si.eval(v)
			}
		})
		si.builderModelOf(fn)
	}
}

func (si *strInterp) eval(v ssa.Value) sabs {
	if r, ok := si.memo[v]; ok {
		return r
	}
	var r sabs
	switch x := v.(type) {
	case *ssa.Const:
		if s, ok := constString(x); ok {
			r = absConst(s)
		} else {
			r = absUnknown()
		}
	case *ssa.Phi:
		r = si.phiVal[x]
	default:
		r = si.eval0(v)
	}
	si.memo[v] = r
	return r
}

func (si *strInterp) eval0(v ssa.Value) sabs {
	switch x := v.(type) {
	case *ssa.BinOp:
		if x.Op == token.ADD && isStringType(x.Type()) {
			a := si.eval(x.X)
			b := si.eval(x.Y)
			si.recordJunction(x, a, b)
			return absConcat(a, b)
		}
	case *ssa.Convert:
		if isStringType(x.X.Type()) {
			return si.eval(x.X)
		}
		// string(rune/byte) or []byte → string
		return absUnknown()
	case *ssa.ChangeType:
		return si.eval(x.X)
	case *ssa.Call:
		return si.evalCall(x)
	case *ssa.Extract:
		return absUnknown()
	}
	return absUnknown()
}

func (si *strInterp) recordJunction(at *ssa.BinOp, a, b sabs) {
	// merge with a previous record for the same instruction (phi iteration refines upward)
	for i := range si.junctions {
		if si.junctions[i].at == at {
			si.junctions[i].left |= a.last
			si.junctions[i].right |= b.first
			return
		}
	}
	si.junctions = append(si.junctions, junction{at: at, left: a.last, right: b.first})
}

func (si *strInterp) evalCall(call *ssa.Call) sabs {
	f := call.Call.StaticCallee()
	if f == nil {
		return absUnknown()
	}
	if name, recv := builderMethod(call); name == "String" {
		if al, ok := recv.(*ssa.Alloc); ok && modelledBuilders(call.Parent())[al] {
			if r, ok := si.builderModelOf(call.Parent()).result[call]; ok {
				return r
			}
		}
		return absUnknown()
	}
	pk := ""
	if f.Pkg != nil {
		pk = f.Pkg.Pkg.Path()
	}
	switch {
	case pk == "strconv" && (strings.HasPrefix(f.Name(), "Format") || f.Name() == "Itoa"):
		return absNonEmpty()
	case isMethodNamed(f, "time", "Time", "Format"):
		return absNonEmpty()
	case isFuncNamed(f, "strings", "Join"):
		el := si.sliceElems(call.Call.Args[0], 0)
		sep := si.eval(call.Call.Args[1])
		// element / separator junctions
		si.junctions = append(si.junctions, junction{at: call, left: el.last, right: sep.first, desc: "element,separator in strings.Join"})
		si.junctions = append(si.junctions, junction{at: call, left: sep.last, right: el.first, desc: "separator,element in strings.Join"})
		r := sabs{first: el.first, last: el.last, mayEmpty: true}
		if el.mayEmpty {
			r.first |= sep.first
			r.last |= sep.last
		}
		return r
	case isFuncNamed(f, "fmt", "Sprintf"), isFuncNamed(f, "encoding/hex", "EncodeToString"):
		return absUnknown()
	}
	if InLib(f) && f.Blocks != nil && isStringish(f.Signature.Results()) {
		return si.evalFunc(f)
	}
	return absUnknown()
}

func isStringish(res *types.Tuple) bool {
	return res.Len() >= 1 && (isStringType(res.At(0).Type()) || isByteSlice(res.At(0).Type()))
}

func isByteSlice(t types.Type) bool {
	s, ok := t.Underlying().(*types.Slice)
	if !ok {
		return false
	}
	b, ok := s.Elem().Underlying().(*types.Basic)
	return ok && b.Kind() == types.Byte
}

// evalFunc: abstract value of the first result of a library function.
func (si *strInterp) evalFunc(f *ssa.Function) sabs {
	if r, ok := si.fnRet[f]; ok {
		return r
	}
	if si.fnBusy[f] {
		return absUnknown()
	}
	si.fnBusy[f] = true
	r := sabs{}
	allInstrs(f, func(in ssa.Instruction) {
		if ret, ok := in.(*ssa.Return); ok && len(ret.Results) > 0 {
			v := ret.Results[0]
			if cv, ok := v.(*ssa.Convert); ok && isByteSlice(cv.Type()) {
				v = cv.X
			}
			r = r.join(si.eval(v))
		}
	})
	delete(si.fnBusy, f)
	si.fnRet[f] = r
	return r
}

// sliceElems: join of the abstract values of the elements a []string value may hold.
func (si *strInterp) sliceElems(v ssa.Value, depth int) sabs {
	if depth > 20 {
		return absUnknown()
	}
	switch x := v.(type) {
	case *ssa.Const:
		return sabs{} // nil slice: no elements
	case *ssa.Phi:
		return si.phiElems[x]
	case *ssa.Call:
		if b, ok := x.Call.Value.(*ssa.Builtin); ok && b.Name() == "append" {
			r := si.sliceElems(x.Call.Args[0], depth+1)
			return r.join(si.sliceElems(x.Call.Args[1], depth+1))
		}
		return absUnknown()
	case *ssa.Slice:
		if al, ok := x.X.(*ssa.Alloc); ok {
			r := sabs{}
			for _, ref := range *al.Referrers() {
				if ia, ok := ref.(*ssa.IndexAddr); ok {
					for _, rr := range *ia.Referrers() {
						if st, ok := rr.(*ssa.Store); ok {
							r = r.join(si.eval(st.Val))
						}
					}
				}
			}
			return r
		}
		return si.sliceElems(x.X, depth+1)
	}
	// field / parameter: caller-supplied strings
	return absUnknown()
}

// ---------------------------------------------------------------------------
// templates: a string expression flattened into constant text and typed placeholders

type leaf struct {
	text string    // constant text (kind == "")
	kind string    // placeholder kind: int, uint, float, time, str, conv, join, call:<name>, acc, other
	val  ssa.Value // the value behind a placeholder
}

func flatten(v ssa.Value, depth int) []leaf {
	if depth > 40 {
		return []leaf{{kind: "other", val: v}}
	}
	switch x := v.(type) {
	case *ssa.Const:
		if s, ok := constString(x); ok {
			return []leaf{{text: s}}
		}
	case *ssa.BinOp:
		if x.Op == token.ADD && isStringType(x.Type()) {
			return append(flatten(x.X, depth+1), flatten(x.Y, depth+1)...)
		}
	case *ssa.Phi:
		return []leaf{{kind: "acc", val: v}}
	case *ssa.ChangeType:
		return flatten(x.X, depth+1)
	case *ssa.Convert:
		if isStringType(x.X.Type()) {
			l := flatten(x.X, depth+1)
			if len(l) == 1 && l[0].kind == "str" {
				l[0].kind = "conv"
			}
			return l
		}
		return []leaf{{kind: "other", val: v}}
	case *ssa.Call:
		if isModelledBuilderWrite(x) {
			// b.WriteString(e) is `acc += e`
			return append([]leaf{{kind: "acc", val: v}}, flatten(x.Call.Args[1], depth+1)...)
		}
		f := x.Call.StaticCallee()
		if f != nil {
			pk := ""
			if f.Pkg != nil {
				pk = f.Pkg.Pkg.Path()
			}
			switch {
			case pk == "strconv" && f.Name() == "FormatInt", pk == "strconv" && f.Name() == "Itoa":
				return []leaf{{kind: "int", val: v}}
			case pk == "strconv" && f.Name() == "FormatUint":
				return []leaf{{kind: "uint", val: v}}
			case pk == "strconv" && f.Name() == "FormatFloat":
				return []leaf{{kind: "float", val: v}}
			case isMethodNamed(f, "time", "Time", "Format"):
				return []leaf{{kind: "time", val: v}}
			case isFuncNamed(f, "strings", "Join"):
				return []leaf{{kind: "join", val: v}}
			}
			return []leaf{{kind: "call:" + FuncName(f), val: v}}
		}
		return []leaf{{kind: "other", val: v}}
	}
	if isStringType(v.Type()) {
		return []leaf{{kind: "str", val: v}}
	}
	return []leaf{{kind: "other", val: v}}
}

// template renders leaves with placeholders written as ⟨kind⟩.
func template(ls []leaf) string {
	var b strings.Builder
	for _, l := range ls {
		if l.kind == "" {
			b.WriteString(l.text)
		} else {
			b.WriteString("\x00" + l.kind + "\x01")
		}
	}
	return b.String()
}

func showTemplate(t string) string {
	t = strings.ReplaceAll(t, "\x00", "⟨")
	t = strings.ReplaceAll(t, "\x01", "⟩")
	return strings.ReplaceAll(t, "\n", "\\n")
}

// stringRoots returns the maximal string-concatenation values of fn: BinOp ADD values of string
// type that are not themselves operands of another string ADD, plus the element values stored
// into append/Join backing arrays.
func stringRoots(fn *ssa.Function) []ssa.Value {
	var out []ssa.Value
	allInstrs(fn, func(in ssa.Instruction) {
		bo, ok := in.(*ssa.BinOp)
		if !ok || bo.Op != token.ADD || !isStringType(bo.Type()) {
			return
		}
		isOperand := false
		for _, ref := range *bo.Referrers() {
			if p, ok := ref.(*ssa.BinOp); ok && p.Op == token.ADD && isStringType(p.Type()) {
				isOperand = true
			}
			if call, ok := ref.(*ssa.Call); ok && isModelledBuilderWrite(call) {
				isOperand = true
			}
		}
		if !isOperand {
			out = append(out, bo)
		}
	})
	// writes into a modelled strings.Builder are accumulations too
	allInstrs(fn, func(in ssa.Instruction) {
		if call, ok := in.(*ssa.Call); ok && isModelledBuilderWrite(call) {
			out = append(out, call)
		}
	})
	return out
}
