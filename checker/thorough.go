package main

// runThorough is filled in by thorough_impl.go
func runThorough(spec *PropSpec, o *checkOpts, fails []Obl) (map[string]interface{}, int) {
	return thoroughImpl(spec, o, fails)
}
