package main

import (
	"fmt"
	"go/token"
	"go/types"
	"os"
	"sort"
	"strings"
	"time"

	"golang.org/x/tools/go/callgraph"
	"golang.org/x/tools/go/callgraph/cha"
	"golang.org/x/tools/go/callgraph/vta"
	"golang.org/x/tools/go/packages"
	"golang.org/x/tools/go/ssa"
	"golang.org/x/tools/go/ssa/ssautil"
)

const modPath = "github.com/bluenviron/gohlslib/v2"

// the six library packages that are analysed.
var libPkgs = []string{
	modPath,
	modPath + "/pkg/codecparams",
	modPath + "/pkg/codecs",
	modPath + "/pkg/playlist",
	modPath + "/pkg/playlist/primitives",
	modPath + "/pkg/storage",
}

// Ctx is the loaded program plus caches shared by all rules.
type Ctx struct {
	RepoDir string
	GOARCH  string
	Tags    string
	UseCHA  bool

	Fset  *token.FileSet
	Pkgs  map[string]*packages.Package
	Prog  *ssa.Program
	SSA   map[string]*ssa.Package
	CG    *callgraph.Graph
	Root  *ssa.Package    // gohlslib
	Funcs []*ssa.Function // every function (incl. anonymous) declared in the six packages

	LoadSeconds float64

	cache map[string]interface{}
}

func isLibPkgPath(p string) bool {
	for _, l := range libPkgs {
		if l == p {
			return true
		}
	}
	return false
}

// Load type-checks the six library packages of repoDir, builds SSA for the whole
// program and a VTA (or CHA) call graph. Any failure is "undecided" (exit 2).
func Load(repoDir, goarch, tags string, useCHA bool) (*Ctx, error) {
	t0 := time.Now()
	if os.Getenv("GOWORK") != "" && os.Getenv("GOWORK") != "off" {
		return nil, fmt.Errorf("GOWORK is set (%q): refusing to analyse", os.Getenv("GOWORK"))
	}
	env := append(os.Environ(),
		"GOFLAGS=-mod=mod", "GOPROXY=off", "GOSUMDB=off", "GOTOOLCHAIN=local", "GOWORK=off", "CGO_ENABLED=0")
	if goarch != "" {
		env = append(env, "GOARCH="+goarch)
	}
	cfg := &packages.Config{
		Mode:  packages.LoadAllSyntax,
		Dir:   repoDir,
		Tests: false,
		Env:   env,
	}
	if tags != "" {
		cfg.BuildFlags = []string{"-tags=" + tags}
	}
	pkgs, err := packages.Load(cfg, ".", "./pkg/...")
	if err != nil {
		return nil, fmt.Errorf("packages.Load: %w", err)
	}
	c := &Ctx{RepoDir: repoDir, GOARCH: goarch, Tags: tags, UseCHA: useCHA,
		Pkgs: map[string]*packages.Package{}, SSA: map[string]*ssa.Package{}, cache: map[string]interface{}{}}
	var errs []string
	packages.Visit(pkgs, nil, func(p *packages.Package) {
		for _, e := range p.Errors {
			errs = append(errs, e.Error())
		}
	})
	if len(errs) > 0 {
		sort.Strings(errs)
		if len(errs) > 8 {
			errs = errs[:8]
		}
		return nil, fmt.Errorf("type/load errors: %s", strings.Join(errs, "; "))
	}
	n := 0
	for _, p := range pkgs {
		if isLibPkgPath(p.PkgPath) {
			c.Pkgs[p.PkgPath] = p
			n++
			if len(p.IgnoredFiles) > 0 {
				// build-tagged files exist: the single-configuration assumption is void
				return nil, fmt.Errorf("package %s has ignored (build-tagged) files %v: configuration coverage is no longer complete", p.PkgPath, p.IgnoredFiles)
			}
		}
	}
	if n != len(libPkgs) {
		return nil, fmt.Errorf("expected %d library packages, loaded %d", len(libPkgs), n)
	}
	c.Fset = pkgs[0].Fset

	prog, _ := ssautil.AllPackages(pkgs, ssa.InstantiateGenerics)
	prog.Build()
	c.Prog = prog
	for path, p := range c.Pkgs {
		sp := prog.Package(p.Types)
		if sp == nil {
			return nil, fmt.Errorf("no SSA package for %s", path)
		}
		c.SSA[path] = sp
	}
	c.Root = c.SSA[modPath]

	all := ssautil.AllFunctions(prog)
	for f := range all {
		if f.Pkg != nil && isLibPkgPath(f.Pkg.Pkg.Path()) && f.Blocks != nil {
			c.Funcs = append(c.Funcs, f)
		}
	}
	sort.Slice(c.Funcs, func(i, j int) bool { return c.Funcs[i].String() < c.Funcs[j].String() })

	chaG := cha.CallGraph(prog)
	if useCHA {
		c.CG = chaG
	} else {
		c.CG = vta.CallGraph(all, chaG)
	}
	c.LoadSeconds = time.Since(t0).Seconds()
	theCtx = c
	return c, nil
}

// ---- lookup helpers (anchors are resolved through the type-checked program) ----

// Pkg returns the types.Package of a library package by its suffix ("" = root).
func (c *Ctx) Pkg(suffix string) *types.Package {
	p := modPath
	if suffix != "" {
		p += "/" + suffix
	}
	if pk, ok := c.Pkgs[p]; ok {
		return pk.Types
	}
	return nil
}

// NamedType looks up a named type in a library package.
func (c *Ctx) NamedType(pkgSuffix, name string) *types.Named {
	p := c.Pkg(pkgSuffix)
	if p == nil {
		return nil
	}
	o := p.Scope().Lookup(name)
	if o == nil {
		return c.renamedType(pkgSuffix, name, p)
	}
	tn, ok := o.(*types.TypeName)
	if !ok {
		return nil
	}
	n, _ := tn.Type().(*types.Named)
	return n
}

// Field returns the types.Var of a struct field of a named struct type.
func (c *Ctx) Field(pkgSuffix, typeName, field string) *types.Var {
	n := c.NamedType(pkgSuffix, typeName)
	if n == nil {
		return nil
	}
	st, ok := n.Underlying().(*types.Struct)
	if !ok {
		return nil
	}
	for i := 0; i < st.NumFields(); i++ {
		if st.Field(i).Name() == field {
			return st.Field(i)
		}
	}
	return c.renamedField(pkgSuffix, typeName, field, st)
}

// Method returns the SSA function of a method (pointer or value receiver) of a named type.
func (c *Ctx) Method(pkgSuffix, typeName, method string) *ssa.Function {
	n := c.NamedType(pkgSuffix, typeName)
	if n == nil {
		return nil
	}
	for _, t := range []types.Type{types.NewPointer(n), n} {
		ms := c.Prog.MethodSets.MethodSet(t)
		for i := 0; i < ms.Len(); i++ {
			if ms.At(i).Obj().Name() == method {
				if fn, ok := ms.At(i).Obj().(*types.Func); ok {
					// declared method (not a promoted wrapper)
					if f := c.Prog.FuncValue(fn); f != nil && f.Blocks != nil {
						return f
					}
				}
			}
		}
	}
	return c.renamedMethod(pkgSuffix, typeName, method, n)
}

// Func returns a package-level function.
func (c *Ctx) Func(pkgSuffix, name string) *ssa.Function {
	p := modPath
	if pkgSuffix != "" {
		p += "/" + pkgSuffix
	}
	sp := c.SSA[p]
	if sp == nil {
		return nil
	}
	if f := sp.Func(name); f != nil {
		return f
	}
	return c.renamedFunc(pkgSuffix, name, sp)
}

// Pos renders a position relative to the repository.
func (c *Ctx) Pos(p token.Pos) string {
	if !p.IsValid() {
		return "-"
	}
	pp := c.Fset.Position(p)
	f := strings.TrimPrefix(pp.Filename, c.RepoDir+"/")
	return fmt.Sprintf("%s:%d", f, pp.Line)
}

// Line returns just the file name and line of a position.
func (c *Ctx) FileOf(p token.Pos) string {
	if !p.IsValid() {
		return ""
	}
	pp := c.Fset.Position(p)
	return strings.TrimPrefix(pp.Filename, c.RepoDir+"/")
}

// InLib reports whether fn is declared in one of the six library packages.
func InLib(fn *ssa.Function) bool {
	if fn == nil {
		return false
	}
	for fn.Pkg == nil && fn.Parent() != nil {
		fn = fn.Parent()
	}
	p := fn.Pkg
	if p == nil {
		if fn.Origin() != nil {
			p = fn.Origin().Pkg
		}
	}
	if p == nil {
		// synthetic wrappers ($bound, $thunk) have no package: use the wrapped method's
		if o := fn.Object(); o != nil && o.Pkg() != nil {
			return isLibPkgPath(o.Pkg().Path())
		}
		return false
	}
	return isLibPkgPath(p.Pkg.Path())
}

// InRootPkg reports whether fn is declared in the root package (muxer + client).
func InRootPkg(fn *ssa.Function) bool {
	for fn != nil && fn.Pkg == nil && fn.Parent() != nil {
		fn = fn.Parent()
	}
	return fn != nil && fn.Pkg != nil && fn.Pkg.Pkg.Path() == modPath
}

// FuncName is the stable, line-free name used in obligation keys.
func FuncName(fn *ssa.Function) string {
	if fn == nil {
		return "<nil>"
	}
	s := fn.String()
	s = strings.ReplaceAll(s, modPath+"/pkg/", "")
	s = strings.ReplaceAll(s, modPath+".", "")
	s = strings.ReplaceAll(s, modPath, "gohlslib")
	return s
}

// theCtx is the context of the tree being analysed (one per process), for helpers that have no Ctx parameter.
var theCtx *Ctx
