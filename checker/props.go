package main

import (
	"encoding/json"
	"fmt"
	"sort"
	"strings"
)

// intended rule sets per property (DESIGN section 4). Only rules that are implemented
// (present in ruleRegistry) are run and claimed; the evidence lists exactly those.
type propPlan struct {
	ID         string
	Title      string
	Rules      []string
	NotDecided string
	Assume     []string
	LevelText  string
}

var propPlans = []propPlan{
	{ID: "C01", Title: "Muxer preserves every accepted access unit",
		Rules:      []string{"CG0", "F5", "F6", "F10", "F16", "F17", "G13", "T6", "N3", "G2", "P1", "T7b", "F5b", "T6d", "T7g", "F28", "T10", "G13b", "P3", "P3b", "F35", "K5p", "F33", "F41", "F42", "F43", "F44", "F45", "F46", "F47", "G14", "T7t", "P8", "T7c", "L5c", "F51", "F41b", "G2c", "F45b", "F51b", "T7", "T6j", "G9", "P2", "F22d", "T6k", "F6b", "F5c"},
		NotDecided: "byte identity through mediacommon's marshaller; timestamp arithmetic (duration = next - this, base-time contiguity); cross-track interleaving; the result for any particular input.",
		LevelText:  "Structural necessary conditions of exactly-once delivery of written units (look-ahead hand-off, part drain, payload immutability, skip-until-random-access, the 10 s constant, which time source feeds which time sink, every stream rotated at every boundary) decided on every CFG path; not the value-level equality itself."},
	{ID: "C02", Title: "Segment boundaries",
		Rules:      []string{"CG0", "G1", "G12", "G13", "G3", "T6", "F2", "F1", "L8", "G14", "T6d", "F22c", "T6e", "T10", "G1b", "T6f", "T8", "T6g", "F33", "F42", "F43", "T6h", "F21", "L5c", "P8b", "T6i", "T6j", "F2c", "F5", "T6k", "G1c"},
		NotDecided: "PAT/PMT at the start of MPEG-TS segments (emitted inside mediacommon); 'never skipped when due' for inputs without random-access units; the contents of the init segment.",
		LevelText:  "The cut condition, the pending-parameter typestate of the four video writers (every recorded parameter change raises it), forced-rotation marking and same-instant rotation of all streams are decided on every path; values are not."},
	{ID: "C03", Title: "Playlist durations, target durations, date-times",
		Rules:      []string{"CG0", "F1", "F15", "F21", "G4", "G4b", "G6", "G10", "N2", "S4", "F16", "F23", "F22c", "F26", "G4c", "F29", "G6b", "G13b", "F30", "G4d", "F10", "G6c", "G3c", "G4e", "F50", "L1", "G4f", "F51", "G4g", "G6d", "F51b", "F29b", "F22d", "G13"},
		NotDecided: "equality of declared and actual media time (needs the samples); PART-TARGET >= every part beyond 'ceil of max over listed parts'.",
		LevelText:  "Telescoping of durations, monotone target duration, rounding directions, hold-back/skip factors and text resolution are decided structurally."},
	{ID: "C04", Title: "Playlist evolution",
		Rules:      []string{"CG0", "G3", "G8", "G9", "G13", "F2", "N1", "N2", "L8", "P3", "G15", "G8b", "L1", "G13b", "F3", "F26b", "G17", "G4d", "P3e", "P5b", "P5c", "G18", "G9d", "G19", "G3d", "G20", "F1", "P11"},
		NotDecided: "the relation between two successive responses (a history property) beyond the per-step invariants; arithmetic on runtime counters.",
		LevelText:  "Per-step inductive invariants of the window and its counters are decided on every path of the rotation functions."},
	{ID: "C05", Title: "Advertised URIs are fetchable, immutable, consistent",
		Rules:      []string{"CG0", "P1", "P2", "P3", "P3b", "P4", "P5", "P6", "F2", "F15", "T7", "T7b", "T7c", "T7e", "G3", "T7f", "T7g", "V4g", "P3c", "T7m", "T7n", "L4", "F26b", "P7", "P5b", "F34", "T7q", "F44", "P5c", "T7t", "P8", "G18", "P3g", "P8b", "L9", "P3h", "P9", "F2c", "T7d", "T7p", "T7v", "P3j", "P6c", "P11"},
		NotDecided: "byte equality of a segment and its concatenated parts on disk (offset arithmetic); HTTP semantics outside the handlers.",
		LevelText:  "Publication protocol: final before published, never written afterwards without the reader's lock, listed = registered, unregistered on expiry, response shape."},
	{ID: "C06", Title: "Blocking reload, preload hints, delta updates",
		Rules:      []string{"CG0", "L1", "L2", "L3", "L8", "L9", "F3", "G7", "G7b", "G7c", "G8", "G9", "N2", "N1", "G15", "G7d", "G3", "G7e", "G7f", "G7g", "F26b", "G7h", "F3b", "G7i", "G7j", "P3d", "G4d", "P3b", "L2b", "G7k", "G9b", "G7l", "G9c", "G7m", "P3f", "G9d", "L3h", "L4", "F9", "L2c", "G7n", "T7b", "V4n", "G19", "L2d", "F3c"},
		NotDecided: "which (M,P) are accepted or rejected (unsigned arithmetic on runtime counters); what the unblocked response contains; telling an absent _HLS_part from _HLS_part=0.",
		LevelText:  "Wait/wake discipline over all schedules, _HLS_* filtering, delta-update shape, roll-over reaching the open segment, rejection bounds that track the live window, no response body written under a muxer lock."},
	{ID: "C07", Title: "Close unblocks every request and releases storage",
		Rules:      []string{"CG0", "L1", "L2", "L3", "L4", "L6", "P3", "P4", "P6", "L9", "V4i", "L2b", "P4b", "P6b", "V4l", "L3h", "L5d", "L2c", "G13b", "T7t", "T7v", "L2d", "P10", "P6c"},
		NotDecided: "'promptly' as a time bound; disk I/O latency under the lock.",
		LevelText:  "Every waiter leaves on a closed flag that Close sets under the lock before broadcasting; no lock leaks on any path; every owned file is released. Argued sufficient (DESIGN 4, C07) for the sub-statement 'every blocked request completes non-200 after Close, no lock left held, every created file removed' under every interleaving, given monitor semantics."},
	{ID: "C08", Title: "One writer + concurrent readers",
		Rules:      []string{"CG0", "L1", "L3", "L4", "L5", "L5b", "L6", "L8", "L9", "P1", "P2", "V4b", "V4d", "T7f", "V4g", "T7m", "P3d", "V4i", "P7", "V4k", "P3f", "V4j", "V4l", "L5c", "P8b", "P9", "K20", "P4", "V4n", "L2d", "G19", "P10"},
		NotDecided: "absence of every panic (nil dereferences are not modelled); single-playlist invariants of a snapshot; monotonic views.",
		LevelText:  "Every location shared between writer and request goroutines is co-locked or frozen before publication (lockset + ownership analysis over all contexts); no zero divisor in handler code."},
	{ID: "C09", Title: "A Client reading a Muxer",
		Rules:      []string{"CG0", "T4", "T5", "T6", "F11", "F12", "F14", "F16", "F18", "F22", "N3", "G11", "F22b", "T8", "F10", "F27", "G16", "G16b", "K7", "G8", "L8", "F26b", "T5b", "G6c", "F32", "F35", "F37", "F39", "F48", "F36", "T6h", "G4b", "F50", "G11j", "S4", "T7b", "F51", "F40b", "F53", "F41b", "G4g", "F45b", "F51b", "F7n", "L4c", "T5c", "F39b", "F54", "F55", "F56", "F22d", "F6b", "F57", "F38"},
		NotDecided: "sample identity, time-origin arithmetic, AbsoluteTime.",
		LevelText:  "Agreement of the muxer's and the client's codec and rendition tables; role and unit consistency of the time conversions (which source feeds which sink, rescaling from the stored rate to the caller's), segment identity computed within one playlist. Values are not decided."},
	{ID: "C10", Title: "Client delivers every sample with normalised time",
		Rules:      []string{"CG0", "G5", "K6", "F8", "F11", "F12", "F14", "F16", "F17", "F18", "F21", "F22", "F24", "F22b", "G16", "L4e", "G16b", "K7", "F8b", "F32", "F20", "T13", "F37", "F38", "F39", "F40", "F48", "K16", "F36", "L3d", "L4c", "F50", "K18", "F52", "F40b", "K19", "K14", "F53", "F8c", "K21", "F7n", "F7c", "T5c", "F39b", "F54", "F55", "F56", "F8d", "F35", "F45b", "F57", "F8e", "F58"},
		NotDecided: "all timestamp arithmetic (rescaling, 33-bit unwrap, NTP extrapolation); sample identity.",
		LevelText:  "Thin: no negative-time delivery, all times through the leading converter, the stream/track hand-shake cannot wedge; running clocks advance on every iteration; track times are converted with the track's clock rate and rescaled in the right direction; segment identity computed within one playlist."},
	{ID: "C11", Title: "Segment selection",
		Rules:      []string{"CG0", "F7", "F18", "F19", "F20", "N3", "K5", "F7c", "F7b", "F27", "F7d", "F7e", "F7f", "F7g", "F7h", "T13", "F7i", "F7j", "F7l", "F7m", "F7n", "F7p", "K7", "F7q", "V4d", "F7r", "T27", "F7s", "F7t", "L3d", "L4c", "F7u", "F7v", "T20", "F7w", "F7x"},
		NotDecided: "index arithmetic against a moving MEDIA-SEQUENCE; Range header values.",
		LevelText:  "Start/next/limit constants, re-fetch and throttle between downloads, URL resolution, delta request that keeps the URL's own query, Range ends that depend on start and length, id and position taken from one playlist, EOS sentinel."},
	{ID: "C12", Title: "Client termination",
		Rules:      []string{"CG0", "K1", "K2", "K3", "K4", "K5", "L1", "L7", "F27", "L3e", "K2b", "K1b", "K5b", "K9", "K4b", "K11", "K15", "K12", "K13", "K17", "F7i", "K20", "K22", "K2c", "K4c", "K23", "K24", "K5c"},
		Assume:     []string{"user callbacks return", "the HTTP transport honours request contexts"},
		NotDecided: "nothing further of the structural clauses; timing ('promptly') is not decided.",
		LevelText:  "Every goroutine is pooled, every blocking operation is cancellable by the pool context, cancel-join-send happens once. Argued sufficient (DESIGN 4, C12) for 'once Wait yields no client goroutine is running, exactly one value is yielded'."},
	{ID: "C13", Title: "Malformed server content",
		Rules:      []string{"CG0", "V4a", "V4b", "V4c", "V4d", "V4e", "T4", "K6", "K2", "V3", "V4f", "V2", "V4h", "K3", "V5", "K8", "K5b", "K9", "K10", "K14", "K15", "K11", "K16", "K17", "K18", "V4m", "K19", "F7s", "K21", "K22", "F12", "K23", "K5c", "K24", "F58"},
		NotDecided: "nil dereferences; busy loops in general; allocation sizes inside mediacommon.",
		LevelText:  "The enumerated panic sources of client code (type assertions, zero divisors, nil function fields incl. every construction site, optional pointers, unchecked map lookups), no silent nil decoder, no wedge on absurd fragment counts."},
	{ID: "C14", Title: "Marshal/Unmarshal round trip",
		Rules:      []string{"T1", "T2", "T3", "S1", "S2", "S4", "V1b", "V3b", "F23", "T9", "P2b", "T3b", "T11", "T12", "T14", "T13", "K5p", "T15", "T16", "T17", "T18", "T19", "T20", "T21", "T23", "T26", "T22", "T25", "T28", "T29", "T30", "T31", "T32", "T33", "T34", "T35", "T36"},
		NotDecided: "value-level equality (float formatting of arbitrary values, key inheritance between segments, time zones, sign handling).",
		LevelText:  "Every field, under the right tag and attribute name, in both directions; what is written can be tokenised back; strings are printed verbatim; the key tag is printed iff the key changed; integers are decimal on both sides."},
	{ID: "C15", Title: "Decoder total, encoder grammatical",
		Rules:      []string{"V1", "V1b", "V2", "V3", "V3b", "V4d", "S1", "S2", "S3", "S5", "F9", "F23", "T9", "P2b", "P4", "V1d", "G6c", "T13", "V1e", "K5p", "T16", "T23", "G4b", "T25", "F49", "G7h", "V3c", "T27", "T30", "G4g", "S6"},
		NotDecided: "the full RFC 8216 grammar; termination as such; escaping of caller-supplied strings inside quoted attributes.",
		LevelText:  "Bounds ledger + validated structure + loop progress for the two playlist packages over all byte strings (modulo nil dereferences); grammar-shape conditions on everything Marshal can emit."},
	{ID: "C16", Title: "Multivariant playlist",
		Rules:      []string{"CG0", "F3", "F4", "F9", "F13", "G11", "T5", "T4", "T7c", "G14", "G11b", "P5", "T6e", "L8", "P2b", "L2", "G11c", "F31", "T6g", "F3b", "G11d", "G11e", "G11f", "G11g", "G11i", "G11j", "G11h", "G18", "G11k", "G11l", "G19", "G11n", "G20", "T6j", "T26", "G11o", "T5c", "G11p", "G11q", "F3c"},
		NotDecided: "which rendition is DEFAULT for a given track list; bandwidth values; RESOLUTION/FRAME-RATE values.",
		LevelText:  "Query preserved on every URI (filtered by re-encoding the parsed query), rendition attributes carried, CODECS entry per track computed when rendering, exactly one automatic DEFAULT; FRAME-RATE only under a non-zero FPS(); a rendition's language is its track's; no map iteration order in the re-encoded query; the segment sizes that feed BANDWIDTH telescope over all parts. Values are not decided."},
	{ID: "C17", Title: "Storage",
		Rules:      []string{"T7", "T7b", "T7c", "T7d", "T7e", "P6", "T7f", "P2", "T7g", "T7h", "L4", "T7k", "T7j", "T7m", "T7n", "T7p", "T7q", "T7r", "F49", "T7t", "T7s", "T7u", "T7v", "P6c"},
		NotDecided: "byte-for-byte equivalence, offsets, reader cursor logic.",
		LevelText:  "Thin: no read before Finalize in both backends, mirror writer forwards identically, disk part windows and offsets, reader progress (no (0, nil) without a full destination), Remove removes what Create created and does nothing else (no store, no truncation), a slice is clamped to the bound its length was tested against."},
	{ID: "C18", Title: "Bounded retention",
		Rules:      []string{"CG0", "G2", "G3", "P3", "P6", "P3c", "G17", "P3e", "K5p", "F33", "G2b", "P5c", "P6b", "P3g", "P3h", "P3i", "G2c", "L5c", "P3j", "P6c", "T7t"},
		NotDecided: "byte totals per segment.",
		LevelText:  "Size check before buffering; the window head is dropped whenever the window is over its bound, with its path, its part paths and its file; files released."},
	{ID: "C19", Title: "LL-HLS parts are regular",
		Rules:      []string{"CG0", "Q1", "Q2", "Q3", "G10", "G6d", "G4g", "F1", "G4d", "G13", "Q4", "G4c"},
		NotDecided: "all the arithmetic: which multiple of the sample duration D is, the 85 % search of findCompatiblePartDuration and its 5 ms step, the upper bound D < 2 x max(PartMinDuration, sample duration) + sample duration, what happens with several sample durations, rounding of PART-TARGET beyond 'up to the millisecond'. Deciding those needs evaluating the code over value ranges (enumeration, symbolic execution): other technique families.",
		LevelText:  "Thin, structural necessary conditions only: the part switch measures the time elapsed since the open part's own start against a threshold field of the segmenter; that threshold is adjusted before it is compared on the leading track's path; it is at least PartMinDuration by construction (search result that starts at the user's value and only adds non-negative steps); a part starts at the instant the previous one ends, in every stream; PART-TARGET is the maximum over every listed part including the open segment's, rounded up, copied to every rendition. The 85 % / 100 % bounds themselves are value-level and not decided."},
	{ID: "C20", Title: "Client download pipeline",
		Rules:      []string{"CG0", "L1", "L4c", "L3c", "K2", "F7", "N3", "L7", "F7b", "F25", "L3d", "L4e", "L3e", "K2b", "L3f", "L3g", "K11", "F7q", "F8c", "F38", "K20", "K2c", "F8d", "F7w", "K3"},
		NotDecided: "exactly-once as a history property beyond the mutation shapes of the queue.",
		LevelText:  "Queue state only under its mutex, wake-up channels captured under the lock, signal after change, one throttle between downloads."},
}

var notApplicable = map[string]string{}

func init() {
	// deferred: property specs are built after all rules registered (init order across files is
	// alphabetical by file name, so resolve lazily in buildProps()).
}

func buildProps() {
	for _, pp := range propPlans {
		var rules []string
		var missing []string
		for _, r := range pp.Rules {
			if _, ok := ruleRegistry[r]; ok {
				rules = append(rules, r)
			} else {
				missing = append(missing, r)
			}
		}
		if len(rules) == 0 || (len(rules) == 1 && rules[0] == "CG0") {
			continue
		}
		var dec []string
		for _, r := range rules {
			dec = append(dec, "["+r+"] "+ruleRegistry[r].Desc)
		}
		nd := pp.NotDecided
		if len(missing) > 0 {
			nd += " Designed but not built (not claimed): rules " + strings.Join(missing, ", ") + "."
		}
		registerProp(&PropSpec{ID: pp.ID, Title: pp.Title, Rules: rules,
			Decided: strings.Join(dec, "; ") + ".", NotDecided: nd, Assumptions: pp.Assume, DesignRef: "DESIGN.md section 4 (" + pp.ID + ")"})
	}
}

func cmdManifest() int {
	type chk struct {
		PropertyID   string                 `json:"property_id"`
		QuickCmd     string                 `json:"quick_cmd"`
		ThoroughCmd  string                 `json:"thorough_cmd"`
		EvidenceFile string                 `json:"evidence_file"`
		ReplayTmpl   string                 `json:"replay_cmd_template"`
		Engine       string                 `json:"engine"`
		Level        map[string]interface{} `json:"level_claimed"`
		LevelNote    string                 `json:"level_note"`
		Technique    string                 `json:"technique"`
	}
	var checks []chk
	na := []map[string]string{}
	plans := map[string]propPlan{}
	var ids []string
	for _, pp := range propPlans {
		plans[pp.ID] = pp
	}
	for i := 1; i <= 20; i++ {
		ids = append(ids, fmt.Sprintf("C%02d", i))
	}
	sort.Strings(ids)
	var served []string
	for _, id := range ids {
		spec := propRegistry[id]
		if spec == nil {
			reason := notApplicable[id]
			if reason == "" {
				reason = "designed (DESIGN.md section 4) but its rules are not built at this commit, so nothing is claimed"
			}
			na = append(na, map[string]string{"property_id": id, "reason": reason})
			continue
		}
		served = append(served, id)
		pp := plans[id]
		checks = append(checks, chk{
			PropertyID:   id,
			QuickCmd:     "bin/check " + id + " quick",
			ThoroughCmd:  "bin/check " + id + " thorough",
			EvidenceFile: "/verif/evidence/" + id + ".json",
			ReplayTmpl:   "bin/hlsverif explain {path}",
			Engine:       "hlsverif",
			Level: map[string]interface{}{
				"category":   "other",
				"text":       pp.LevelText + " Partial claim: structural necessary conditions decided for every path / schedule / input of the code as written; clauses listed under NOT DECIDED in the evidence are not claimed.",
				"design_ref": "DESIGN.md section 4, " + id,
			},
			LevelNote: "Trusted: go/types + go/ssa + VTA call graph (x/tools v0.29.0); documented semantics of sync, channels, context, net/http, strings/strconv; mediacommon/go-astits as opaque callees; API usage contract (one writer goroutine, Handle after Start). Rules: " + strings.Join(spec.Rules, " ") + ".",
			Technique: "static analysis: custom SSA/call-graph rules (" + strings.Join(spec.Rules, ", ") + ")",
		})
	}
	m := map[string]interface{}{
		"version":   1,
		"setup_cmd": "cd /verif/checker && GOFLAGS=-mod=mod GOPROXY=off GOSUMDB=off GOTOOLCHAIN=local GOWORK=off go build -o /verif/bin/hlsverif .",
		"hooks": map[string]interface{}{
			"guard":            "verif",
			"enable":           "none: static analysis needs no hooks; the tag guards nothing and thorough re-runs every rule with -tags verif to show the result is identical",
			"baseline_off_cmd": "cd /repo && GOFLAGS=-mod=mod GOPROXY=off GOSUMDB=off go test -json -vet=off -count=1 -timeout 25m ./...",
			"source_commits":   []string{},
			"add_only":         true,
		},
		"engines": []map[string]interface{}{{
			"name": "hlsverif", "path": "/verif/checker", "serves_properties": served,
			"kind_free_text": "repository-specific static analyser (go/packages + go/ssa + VTA call graph, x/tools v0.29.0): lockset/ownership dataflow, dominance and edge-cut control dependence, sibling-table agreement, abstract interpretation of string SSA",
		}},
		"checks":         checks,
		"not_applicable": na,
		"notes":          "All checks are static: they load /repo's current working tree on every run and execute nothing. exit 2 (no VIOLATION line) = undecided (type error, lost anchor, instance floor). Known findings: /verif/known_findings.json. Seeded breaking changes: /verif/seeded/.",
	}
	b, _ := json.MarshalIndent(m, "", " ")
	fmt.Println(string(b))
	return 0
}
