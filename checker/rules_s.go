package main

import (
	"fmt"
	"go/token"
	"regexp"
	"sort"
	"strings"

	"golang.org/x/tools/go/ssa"
)

func init() {
	registerRule("S1", "encoder shape: no attribute list can start with a comma, contain an empty item or end with a comma (abstract interpretation of every string concatenation in the marshal functions)", ruleS1)
	registerRule("S2", "encoder shape: every tag starts at the beginning of a line, every marshal result ends with a newline, both encoders start with the constant #EXTM3U line, a URI line directly follows its EXTINF / EXT-X-STREAM-INF chunk", ruleS2)
	registerRule("S3", "attribute lexical types: every KEY= emitted by a marshal function has the lexical type RFC 8216 / 8216bis gives it (quoted-string, decimal-integer, decimal-floating-point, enumerated-string, ...)", ruleS3)
	registerRule("S4", "text resolution: every duration is printed with FormatFloat(_, 'f', p>=5, 64); every date-time with a layout carrying milliseconds", ruleS4)
	registerRule("S5", "tag placement: tags emitted by Media.Marshal are media-playlist or basic tags, those of Multivariant.Marshal multivariant or basic tags; header tags are not emitted inside a loop", ruleS5)
}

// marshalFuncs: functions named marshal/Marshal of pkg/playlist and pkg/playlist/primitives.
func (c *Ctx) playlistFuncs() (all []*ssa.Function, marshal []*ssa.Function) {
	for _, fn := range c.Funcs {
		if fn.Pkg == nil && fn.Parent() == nil {
			continue
		}
		p := fn
		for p.Pkg == nil && p.Parent() != nil {
			p = p.Parent()
		}
		if p.Pkg == nil {
			continue
		}
		path := p.Pkg.Pkg.Path()
		if path != modPath+"/pkg/playlist" && path != modPath+"/pkg/playlist/primitives" {
			continue
		}
		all = append(all, fn)
		if fn.Parent() == nil && c.isMarshalFunc(fn) {
			marshal = append(marshal, fn)
		}
	}
	return
}

func (c *Ctx) strSolved() *strInterp {
	if v, ok := c.cache["strinterp"]; ok {
		return v.(*strInterp)
	}
	all, _ := c.playlistFuncs()
	si := newStrInterp(c)
	si.solve(all)
	c.cache["strinterp"] = si
	return si
}

func inMarshal(fn *ssa.Function) bool {
	for fn != nil {
		if fn.Name() == "marshal" || fn.Name() == "Marshal" || (theCtx != nil && theCtx.isMarshalFunc(fn)) {
			return true
		}
		fn = fn.Parent()
	}
	return false
}

func ruleS1(c *Ctx) *RuleResult {
	r := &RuleResult{Floor: 60, FloorWhat: "string concatenations in the marshal functions"}
	si := c.strSolved()
	cnt := map[string]int{}
	for _, j := range si.junctions {
		fn := j.at.Parent()
		if !inMarshal(fn) {
			continue
		}
		r.analysed(FuncName(fn))
		cnt[FuncName(fn)]++
		key := fmt.Sprintf("%s|concat#%d", FuncName(fn), cnt[FuncName(fn)])
		what := "no ',' directly after ':' or ',' and no ',' directly before the end of the line"
		var bad []string
		if j.left&(cColon|cComma) != 0 && j.right&cComma != 0 {
			bad = append(bad, fmt.Sprintf("left part may end with %v and right part may start with ','", j.left&(cColon|cComma)))
		}
		if j.left&cComma != 0 && j.right&cNL != 0 && !isExtinfLine(j.at) {
			bad = append(bad, "left part may end with ',' and right part may start with a newline")
		}
		d := j.desc
		if d == "" {
			d = shortInstr(j.at)
		}
		if len(bad) > 0 {
			r.fail(key, c.Pos(posOf(j.at)), FuncName(fn), what, strings.Join(bad, "; ")+" at "+d+": the attribute list contains an empty item and the decoder misreads the following key")
		} else {
			r.ok(key, c.Pos(posOf(j.at)), FuncName(fn), what, fmt.Sprintf("last(left)=%v first(right)=%v", j.left, j.right))
		}
	}
	// constants
	_, ms := c.playlistFuncs()
	for _, fn := range ms {
		n := 0
		allInstrs(fn, func(in ssa.Instruction) {
			for _, op := range in.Operands(nil) {
				if s, ok := constString(*op); ok && len(s) > 1 {
					for _, badSeq := range []string{":,", ",,", ",\n"} {
						if strings.Contains(s, badSeq) {
							n++
							r.fail(fmt.Sprintf("%s|const#%d", FuncName(fn), n), c.Pos(posOf(in)), FuncName(fn), "no constant contains an empty attribute item", fmt.Sprintf("constant %q contains %q", s, badSeq))
						}
					}
				}
			}
		})
	}
	return r
}

func ruleS2(c *Ctx) *RuleResult {
	r := &RuleResult{Floor: 30, FloorWhat: "marshal functions, tag junctions and constants"}
	si := c.strSolved()
	_, ms := c.playlistFuncs()
	for _, fn := range ms {
		if !isStringish(fn.Signature.Results()) {
			continue
		}
		// ByteRange.Marshal and the like are values, not lines
		isLine := false
		allInstrs(fn, func(in ssa.Instruction) {
			for _, op := range in.Operands(nil) {
				if s, ok := constString(*op); ok && strings.Contains(s, "#EXT") {
					isLine = true
				}
			}
		})
		if !isLine {
			continue
		}
		ret := si.evalFunc(fn)
		key := FuncName(fn) + "|ends-with-newline"
		// an exported entry point always prints something; a helper (a phase of an encoder) may print nothing
		if ret.last&^cNL == 0 && (!ret.mayEmpty || fn.Name() != "Marshal") {
			r.ok(key, c.Pos(fn.Pos()), FuncName(fn), "every result ends with a newline", "last="+ret.last.String())
		} else {
			r.fail(key, c.Pos(fn.Pos()), FuncName(fn), "every result ends with a newline", fmt.Sprintf("possible last characters %v, may be empty: %v — the next tag would be glued to this line", ret.last, ret.mayEmpty))
		}
		key = FuncName(fn) + "|starts-with-tag"
		if fn.Name() == "Marshal" {
			// leftmost leaf of every return value
			okAll := true
			why := ""
			allInstrs(fn, func(in ssa.Instruction) {
				if rt, ok := in.(*ssa.Return); ok {
					v := rt.Results[0]
					if cv, ok := v.(*ssa.Convert); ok {
						v = cv.X
					}
					lm := leftmostConst(v, 0)
					if !strings.HasPrefix(lm, "#EXTM3U\n") {
						okAll = false
						why = fmt.Sprintf("leftmost constant is %q", lm)
					}
				}
			})
			if okAll {
				r.ok(key, c.Pos(fn.Pos()), FuncName(fn), "the playlist starts with the constant \"#EXTM3U\\n\"", "leftmost leaf of the returned concatenation")
			} else {
				r.fail(key, c.Pos(fn.Pos()), FuncName(fn), "the playlist starts with the constant \"#EXTM3U\\n\"", why)
			}
		}
	}
	// '#' junctions
	cnt := map[string]int{}
	for _, j := range si.junctions {
		fn := j.at.Parent()
		if !inMarshal(fn) || j.right&cHash == 0 {
			continue
		}
		cnt[FuncName(fn)]++
		key := fmt.Sprintf("%s|tag-at-line-start#%d", FuncName(fn), cnt[FuncName(fn)])
		if j.left&^cNL == 0 {
			r.ok(key, c.Pos(posOf(j.at)), FuncName(fn), "a tag is appended only to text that ends with a newline (or to nothing)", "last(left)="+j.left.String())
		} else {
			r.fail(key, c.Pos(posOf(j.at)), FuncName(fn), "a tag is appended only to text that ends with a newline (or to nothing)", "left part may end with "+(j.left&^cNL).String()+": the tag would not start a line")
		}
	}
	// constants with an inner '#'
	for _, fn := range ms {
		n := 0
		allInstrs(fn, func(in ssa.Instruction) {
			for _, op := range in.Operands(nil) {
				if s, ok := constString(*op); ok {
					for i := 1; i < len(s); i++ {
						if s[i] == '#' && s[i-1] != '\n' {
							n++
							r.fail(fmt.Sprintf("%s|const-hash#%d", FuncName(fn), n), c.Pos(posOf(in)), FuncName(fn), "inside a constant every '#' follows a newline", fmt.Sprintf("constant %q", s))
						}
					}
				}
			}
		})
	}
	// URI line directly after its EXTINF / STREAM-INF chunk
	for _, spec := range []struct{ typ, tag, uriField string }{
		{"MediaSegment", "#EXTINF:", "URI"}, {"MultivariantVariant", "#EXT-X-STREAM-INF:", "URI"},
	} {
		fn := c.codecFuncOf(spec.typ, "marshal")
		key := spec.typ + ".marshal|uri-after-" + spec.tag
		if fn == nil {
			r.undecided("%s.marshal not found", spec.typ)
			continue
		}
		var tagI, uriI ssa.Instruction
		uriF := c.Field("pkg/playlist", spec.typ, spec.uriField)
		var hashConsts []struct {
			in ssa.Instruction
			s  string
		}
		allInstrs(fn, func(in ssa.Instruction) {
			bo, ok := in.(*ssa.BinOp)
			if !ok || bo.Op != token.ADD || !isStringType(bo.Type()) {
				return
			}
			for _, l := range flatten(bo, 0) {
				if l.kind == "" && strings.Contains(l.text, spec.tag) {
					if tagI == nil {
						tagI = in
					}
				}
				if l.kind == "str" {
					if f, _ := loadedField(l.val); f == uriF && uriI == nil {
						uriI = in
					}
				}
			}
			for _, op := range []ssa.Value{bo.X, bo.Y} {
				if s, ok := constString(op); ok && strings.Contains(s, "#") {
					hashConsts = append(hashConsts, struct {
						in ssa.Instruction
						s  string
					}{in, s})
				}
			}
		})
		if tagI == nil || uriI == nil {
			r.undecided("%s: %s — %s (the construct this rule is anchored on was not found: no verdict)", key, "the URI line is emitted after its "+spec.tag+" chunk", "tag literal or URI concatenation not found")
			continue
		}
		okOrder := tagI == uriI || instrDominates(tagI, uriI)
		between := ""
		for _, hc := range hashConsts {
			if hc.in == tagI || hc.in == uriI {
				continue
			}
			if instrReaches(tagI, hc.in) && instrReaches(hc.in, uriI) && !strings.Contains(hc.s, "#EXT-X-BYTERANGE:") {
				between = hc.s
			}
		}
		switch {
		case !okOrder:
			r.fail(key, c.Pos(posOf(uriI)), FuncName(fn), "the URI line is emitted after its "+spec.tag+" chunk", "the "+spec.tag+" concatenation does not dominate the URI concatenation")
		case between != "":
			r.fail(key, c.Pos(posOf(uriI)), FuncName(fn), "nothing but EXT-X-BYTERANGE stands between "+spec.tag+" and the URI line", fmt.Sprintf("tag %q is emitted in between", between))
		default:
			r.ok(key, c.Pos(posOf(uriI)), FuncName(fn), "the URI line directly follows its "+spec.tag+" chunk (only EXT-X-BYTERANGE may stand between)", "dominance order tag → URI")
		}
	}
	return r
}

func leftmostConst(v ssa.Value, depth int) string {
	return leftmostConst0(v, map[ssa.Value]bool{})
}

const cyc = "\x00cycle"

func leftmostConst0(v ssa.Value, seen map[ssa.Value]bool) string {
	switch x := v.(type) {
	case *ssa.Const:
		s, _ := constString(x)
		return s
	case *ssa.BinOp:
		if x.Op == token.ADD {
			return leftmostConst0(x.X, seen)
		}
	case *ssa.Phi:
		if seen[v] {
			return cyc
		}
		seen[v] = true
		// all incoming values must share the leftmost constant (cycles through the phi itself are neutral)
		res := cyc
		for _, e := range x.Edges {
			s := leftmostConst0(e, seen)
			if s == cyc {
				continue
			}
			if res != cyc && s != res {
				return ""
			}
			res = s
		}
		delete(seen, v)
		return res
	}
	return ""
}

// ---------------------------------------------------------------------------
// S3

// RFC 8216 section 4.3 and draft-pantos-hls-rfc8216bis section 4.4 (transcribed by hand).
// q = quoted-string, i = decimal-integer, f = decimal-floating-point (incl. signed),
// e = enumerated-string, h = hexadecimal-sequence, r = decimal-resolution
var rfcAttrType = map[string]string{
	"EXT-X-START|TIME-OFFSET": "f", "EXT-X-START|PRECISE": "e",
	"EXT-X-SERVER-CONTROL|CAN-BLOCK-RELOAD": "e", "EXT-X-SERVER-CONTROL|PART-HOLD-BACK": "f", "EXT-X-SERVER-CONTROL|CAN-SKIP-UNTIL": "f",
	"EXT-X-SERVER-CONTROL|HOLD-BACK": "f", "EXT-X-SERVER-CONTROL|CAN-SKIP-DATERANGES": "e",
	"EXT-X-PART-INF|PART-TARGET": "f",
	"EXT-X-MAP|URI":              "q", "EXT-X-MAP|BYTERANGE": "q",
	"EXT-X-KEY|METHOD": "e", "EXT-X-KEY|URI": "q", "EXT-X-KEY|IV": "h", "EXT-X-KEY|KEYFORMAT": "q", "EXT-X-KEY|KEYFORMATVERSIONS": "q",
	"EXT-X-SKIP|SKIPPED-SEGMENTS": "i", "EXT-X-SKIP|RECENTLY-REMOVED-DATERANGES": "q",
	"EXT-X-PART|DURATION": "f", "EXT-X-PART|URI": "q", "EXT-X-PART|INDEPENDENT": "e", "EXT-X-PART|BYTERANGE": "q", "EXT-X-PART|GAP": "e",
	"EXT-X-PRELOAD-HINT|TYPE": "e", "EXT-X-PRELOAD-HINT|URI": "q", "EXT-X-PRELOAD-HINT|BYTERANGE-START": "i", "EXT-X-PRELOAD-HINT|BYTERANGE-LENGTH": "i",
	"EXT-X-STREAM-INF|BANDWIDTH": "i", "EXT-X-STREAM-INF|AVERAGE-BANDWIDTH": "i", "EXT-X-STREAM-INF|CODECS": "q", "EXT-X-STREAM-INF|RESOLUTION": "r",
	"EXT-X-STREAM-INF|FRAME-RATE": "f", "EXT-X-STREAM-INF|VIDEO": "q", "EXT-X-STREAM-INF|AUDIO": "q", "EXT-X-STREAM-INF|SUBTITLES": "q",
	"EXT-X-STREAM-INF|CLOSED-CAPTIONS": "q", "EXT-X-STREAM-INF|HDCP-LEVEL": "e", "EXT-X-STREAM-INF|SCORE": "f", "EXT-X-STREAM-INF|VIDEO-RANGE": "e",
	"EXT-X-MEDIA|TYPE": "e", "EXT-X-MEDIA|GROUP-ID": "q", "EXT-X-MEDIA|LANGUAGE": "q", "EXT-X-MEDIA|ASSOC-LANGUAGE": "q", "EXT-X-MEDIA|NAME": "q",
	"EXT-X-MEDIA|AUTOSELECT": "e", "EXT-X-MEDIA|DEFAULT": "e", "EXT-X-MEDIA|FORCED": "e", "EXT-X-MEDIA|CHANNELS": "q", "EXT-X-MEDIA|URI": "q",
	"EXT-X-MEDIA|INSTREAM-ID": "q", "EXT-X-MEDIA|CHARACTERISTICS": "q",
}

var reTag = regexp.MustCompile(`#(EXT[A-Z0-9-]*)`)
var reAttr = regexp.MustCompile(`([A-Z][A-Z0-9-]*)=("?)(\x00([a-zA-Z0-9:.*()$_/ -]+)\x01|[A-Za-z0-9@.-]*)("?)`)

type emittedAttr struct {
	fn     *ssa.Function
	at     ssa.Instruction
	tag    string
	name   string
	quoted bool
	kind   string // placeholder kind or "lit:<text>"
	val    ssa.Value
}

// emittedAttrs extracts every KEY=value fragment the marshal functions can emit.
func (c *Ctx) emittedAttrs() []emittedAttr {
	if v, ok := c.cache["emittedattrs"]; ok {
		return v.([]emittedAttr)
	}
	var out []emittedAttr
	_, ms := c.playlistFuncs()
	for _, fn := range ms {
		// the tag of the function: first tag literal with a ':' in it
		tag := ""
		allInstrs(fn, func(in ssa.Instruction) {
			for _, op := range in.Operands(nil) {
				if s, ok := constString(*op); ok && tag == "" {
					if m := reTag.FindStringSubmatch(s); m != nil && strings.Contains(s, m[1]+":") && strings.Contains(s, "=") {
						tag = m[1]
					} else if m != nil && strings.HasSuffix(s, m[1]+":") && fn.Name() == "marshal" {
						tag = m[1]
					}
				}
			}
		})
		var roots []ssa.Value
		roots = append(roots, stringRoots(fn)...)
		// elements appended to slices that are later joined
		allInstrs(fn, func(in ssa.Instruction) {
			if st, ok := in.(*ssa.Store); ok {
				if _, isIA := st.Addr.(*ssa.IndexAddr); isIA && isStringType(st.Val.Type()) {
					if _, isBin := st.Val.(*ssa.BinOp); !isBin {
						roots = append(roots, st.Val)
					}
				}
			}
		})
		for _, rt := range roots {
			ls := flatten(rt, 0)
			t := template(ls)
			// placeholders in order of appearance
			var phs []leaf
			for _, l := range ls {
				if l.kind != "" {
					phs = append(phs, l)
				}
			}
			for _, m := range reAttr.FindAllStringSubmatchIndex(t, -1) {
				name := t[m[2]:m[3]]
				q1 := t[m[4]:m[5]] == "\""
				body := t[m[6]:m[7]]
				ea := emittedAttr{fn: fn, tag: tag, name: name, quoted: q1}
				if in, ok := rt.(ssa.Instruction); ok {
					ea.at = in
				}
				if strings.HasPrefix(body, "\x00") {
					ea.kind = t[m[8]:m[9]]
					// which placeholder: count \x00 before m[6]
					idx := strings.Count(t[:m[6]], "\x00")
					if idx < len(phs) {
						ea.val = phs[idx].val
					}
					// closing quote must follow the placeholder
					q2 := t[m[10]:m[11]] == "\""
					if q1 != q2 {
						ea.kind += "|unbalanced-quote"
					}
				} else {
					ea.kind = "lit:" + body
					if body == "" && !q1 {
						// KEY= at the very end of the fragment followed by nothing: value comes from a later fragment
						continue
					}
				}
				out = append(out, ea)
			}
		}
	}
	sort.SliceStable(out, func(i, j int) bool {
		if FuncName(out[i].fn) != FuncName(out[j].fn) {
			return FuncName(out[i].fn) < FuncName(out[j].fn)
		}
		return out[i].name < out[j].name
	})
	c.cache["emittedattrs"] = out
	return out
}

func ruleS3(c *Ctx) *RuleResult {
	r := &RuleResult{Floor: 40, FloorWhat: "attributes emitted by the marshal functions"}
	for _, ea := range c.emittedAttrs() {
		key := FuncName(ea.fn) + "|" + ea.name
		pos := c.Pos(ea.fn.Pos())
		if ea.at != nil {
			pos = c.Pos(posOf(ea.at))
		}
		want, known := rfcAttrType[ea.tag+"|"+ea.name]
		if !known {
			r.undecided("attribute %s of tag %s (emitted by %s) is not in the RFC table: add it with its lexical type", ea.name, ea.tag, FuncName(ea.fn))
			continue
		}
		kind := strings.Split(ea.kind, "|")[0]
		what := fmt.Sprintf("%s:%s has RFC lexical type %s", ea.tag, ea.name, map[string]string{"q": "quoted-string", "i": "decimal-integer", "f": "decimal-floating-point", "e": "enumerated-string", "h": "hexadecimal-sequence", "r": "decimal-resolution"}[want])
		got := fmt.Sprintf("emitted %s, value kind %s", map[bool]string{true: "quoted", false: "unquoted"}[ea.quoted], ea.kind)
		ok := true
		switch want {
		case "q":
			ok = ea.quoted && !strings.Contains(ea.kind, "unbalanced")
		case "i":
			ok = !ea.quoted && (kind == "int" || kind == "uint")
		case "f":
			ok = !ea.quoted && kind == "float"
		case "e":
			ok = !ea.quoted && (strings.HasPrefix(kind, "lit:") || kind == "conv" || kind == "str")
		case "h", "r":
			ok = !ea.quoted && (kind == "str" || kind == "conv")
		}
		if kind == "join" && !ea.quoted {
			ok = false
			got += " (a comma-joined list must be quoted)"
		}
		if ok {
			r.ok(key, pos, FuncName(ea.fn), what, got)
		} else {
			r.fail(key, pos, FuncName(ea.fn), what, got+": a strict RFC parser rejects or mis-tokenises this attribute")
		}
	}
	return r
}

// ---------------------------------------------------------------------------

func ruleS4(c *Ctx) *RuleResult {
	r := &RuleResult{Floor: 8, FloorWhat: "FormatFloat / time.Format calls in the marshal functions"}
	_, ms := c.playlistFuncs()
	for _, fn := range ms {
		n := 0
		allInstrs(fn, func(in ssa.Instruction) {
			call, ok := in.(*ssa.Call)
			if !ok {
				return
			}
			f := call.Call.StaticCallee()
			switch {
			case isFuncNamed(f, "strconv", "FormatFloat"):
				n++
				key := fmt.Sprintf("%s|FormatFloat#%d", FuncName(fn), n)
				fmtB, _ := constInt(call.Call.Args[1])
				prec, _ := constInt(call.Call.Args[2])
				// is the argument a duration in seconds?
				isDur := false
				if sc, ok := call.Call.Args[0].(*ssa.Call); ok && isMethodNamed(sc.Call.StaticCallee(), "time", "Duration", "Seconds") {
					isDur = true
				}
				if !isDur {
					if fmtB == 'f' {
						r.ok(key, c.Pos(call.Pos()), FuncName(fn), "floating-point values are printed in plain decimal notation", fmt.Sprintf("'f', precision %d (not a duration)", prec))
					} else {
						r.fail(key, c.Pos(call.Pos()), FuncName(fn), "floating-point values are printed in plain decimal notation", fmt.Sprintf("format byte %q: exponents are not decimal-floating-point", rune(fmtB)))
					}
					return
				}
				if fmtB == 'f' && prec >= 5 {
					r.ok(key, c.Pos(call.Pos()), FuncName(fn), "durations are printed with 'f' and at least 5 decimals (10 us)", fmt.Sprintf("'f', precision %d", prec))
				} else {
					r.fail(key, c.Pos(call.Pos()), FuncName(fn), "durations are printed with 'f' and at least 5 decimals (10 us)", fmt.Sprintf("format %q precision %d: the round trip loses more than 10 us", rune(fmtB), prec))
				}
			case isMethodNamed(f, "time", "Time", "Format"):
				n++
				key := fmt.Sprintf("%s|TimeFormat#%d", FuncName(fn), n)
				lay, ok := constString(call.Call.Args[1])
				if ok && (strings.Contains(lay, ".999") || strings.Contains(lay, ".000")) && strings.Contains(lay, "Z07") {
					r.ok(key, c.Pos(call.Pos()), FuncName(fn), "date-times are printed with milliseconds and a time zone", fmt.Sprintf("layout %q", lay))
				} else {
					r.fail(key, c.Pos(call.Pos()), FuncName(fn), "date-times are printed with milliseconds and a time zone", fmt.Sprintf("layout %q", lay))
				}
			}
		})
	}
	return r
}

// ---------------------------------------------------------------------------

var mediaTags = map[string]bool{"EXT-X-TARGETDURATION": true, "EXT-X-MEDIA-SEQUENCE": true, "EXT-X-DISCONTINUITY-SEQUENCE": true, "EXT-X-ENDLIST": true,
	"EXT-X-PLAYLIST-TYPE": true, "EXT-X-I-FRAMES-ONLY": true, "EXT-X-PART-INF": true, "EXT-X-SERVER-CONTROL": true, "EXTINF": true, "EXT-X-BYTERANGE": true,
	"EXT-X-DISCONTINUITY": true, "EXT-X-KEY": true, "EXT-X-MAP": true, "EXT-X-PROGRAM-DATE-TIME": true, "EXT-X-GAP": true, "EXT-X-BITRATE": true,
	"EXT-X-PART": true, "EXT-X-DATERANGE": true, "EXT-X-SKIP": true, "EXT-X-PRELOAD-HINT": true, "EXT-X-RENDITION-REPORT": true}
var multivariantTags = map[string]bool{"EXT-X-MEDIA": true, "EXT-X-STREAM-INF": true, "EXT-X-I-FRAME-STREAM-INF": true, "EXT-X-SESSION-DATA": true,
	"EXT-X-SESSION-KEY": true, "EXT-X-CONTENT-STEERING": true}
var bothTags = map[string]bool{"EXTM3U": true, "EXT-X-VERSION": true, "EXT-X-INDEPENDENT-SEGMENTS": true, "EXT-X-START": true, "EXT-X-DEFINE": true}
var obsoleteTags = map[string]bool{"EXT-X-ALLOW-CACHE": true}

// header tags of a media playlist that must appear at most once
var onceTags = map[string]bool{"EXTM3U": true, "EXT-X-VERSION": true, "EXT-X-INDEPENDENT-SEGMENTS": true, "EXT-X-START": true, "EXT-X-TARGETDURATION": true,
	"EXT-X-MEDIA-SEQUENCE": true, "EXT-X-DISCONTINUITY-SEQUENCE": true, "EXT-X-ENDLIST": true, "EXT-X-PLAYLIST-TYPE": true, "EXT-X-PART-INF": true,
	"EXT-X-SERVER-CONTROL": true, "EXT-X-SKIP": true, "EXT-X-PRELOAD-HINT": true, "EXT-X-ALLOW-CACHE": true}

func ruleS5(c *Ctx) *RuleResult {
	r := &RuleResult{Floor: 25, FloorWhat: "tag literals reachable from the two encoders"}
	for _, enc := range []struct {
		typ     string
		allowed map[string]bool
		kind    string
	}{{"Media", mediaTags, "media-playlist"}, {"Multivariant", multivariantTags, "multivariant-playlist"}} {
		root := c.Method("pkg/playlist", enc.typ, "Marshal")
		if root == nil {
			r.undecided("%s.Marshal not found", enc.typ)
			continue
		}
		// walk callees with an "in loop" flag
		type item struct {
			fn     *ssa.Function
			inLoop bool
		}
		seen := map[item]bool{}
		work := []item{{root, false}}
		tags := map[string]bool{}    // tag → seen
		looped := map[string]bool{}  // tag emitted under a loop
		where := map[string]string{} // tag → position
		for len(work) > 0 {
			it := work[len(work)-1]
			work = work[:len(work)-1]
			if seen[it] || !InLib(it.fn) || it.fn.Blocks == nil {
				continue
			}
			seen[it] = true
			allInstrs(it.fn, func(in ssa.Instruction) {
				loop := it.inLoop || inLoop(in)
				for _, op := range in.Operands(nil) {
					if s, ok := constString(*op); ok {
						for _, m := range reTag.FindAllStringSubmatch(s, -1) {
							tags[m[1]] = true
							if loop {
								looped[m[1]] = true
							}
							if where[m[1]] == "" {
								where[m[1]] = c.Pos(posOf(in)) + " in " + FuncName(it.fn)
							}
						}
					}
				}
				if ci, ok := in.(ssa.CallInstruction); ok {
					for _, g := range c.calleesOf(ci) {
						if g.Name() == "marshal" || g.Name() == "Marshal" || c.isMarshalFunc(g) {
							work = append(work, item{g, loop})
						}
					}
				}
			})
		}
		var names []string
		for t := range tags {
			names = append(names, t)
		}
		sort.Strings(names)
		for _, t := range names {
			key := enc.typ + ".Marshal|" + t
			switch {
			case enc.allowed[t] || bothTags[t]:
				r.ok(key, where[t], FuncName(root), "tag is a "+enc.kind+" tag or a basic tag", "RFC table")
			case obsoleteTags[t]:
				r.ok(key, where[t], FuncName(root), "tag is a "+enc.kind+" tag or a basic tag", "obsolete tag unknown to RFC 8216bis: ignorable by a strict parser (listed only)")
			default:
				r.fail(key, where[t], FuncName(root), "tag is a "+enc.kind+" tag or a basic tag", "tag #"+t+" must not appear in a "+enc.kind)
			}
			if onceTags[t] {
				key2 := enc.typ + ".Marshal|once|" + t
				if looped[t] {
					r.fail(key2, where[t], FuncName(root), "header tag is emitted at most once (not inside a loop)", "#"+t+" is emitted inside a loop")
				} else {
					r.ok(key2, where[t], FuncName(root), "header tag is emitted at most once (not inside a loop)", "no enclosing loop on any call path")
				}
			}
		}
	}
	return r
}

// isExtinfLine: the concatenation builds the EXTINF line, whose grammar is
// "#EXTINF:<duration>,[<title>]" — the comma before the end of the line is mandatory there.
func isExtinfLine(at ssa.Instruction) bool {
	v, ok := at.(ssa.Value)
	if !ok {
		return false
	}
	for _, l := range flatten(v, 0) {
		if l.kind == "" && strings.Contains(l.text, "#EXTINF:") {
			return true
		}
	}
	return false
}
