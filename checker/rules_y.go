package main

// Rules added after the third round of seeded changes (DESIGN section 10, "third batch").

import (
	"fmt"
	"go/token"
	"go/types"
	"regexp"
	"sort"
	"strings"

	"golang.org/x/tools/go/ssa"
)

func init() {
	registerRule("F16", "timestamp roles: wherever a function that has a decode-time source (a parameter, captured variable or field whose name says DTS, or the result of a DTSExtractor) hands a value to a decode-time sink (a callee parameter or struct field whose name says DTS), the value is computed from a decode-time source; the same for presentation time; a `ptsOffset` sink is computed from both", ruleF16)
	registerRule("G13", "every stream is rotated at every boundary: next to the rotation of m.leadingStream, the Muxer rotates t[i] for the index of a range over the whole m.streams, exactly when the element is not the leading one", ruleG13)
}

var (
	reDTS = regexp.MustCompile(`(^dts($|[A-Z0-9_]))|([a-z0-9_]DTS($|[A-Z0-9_]))|(^DTS($|[A-Z0-9_]))|([a-z0-9]Dts($|[A-Z0-9_]))`)
	rePTS = regexp.MustCompile(`(^pts($|[A-Z0-9_]))|([a-z0-9_]PTS($|[A-Z0-9_]))|(^PTS($|[A-Z0-9_]))|([a-z0-9]Pts($|[A-Z0-9_]))`)
)

// tsRole classifies a parameter / field name: "dts", "pts", "off" (needs both) or "".
func tsRole(name string) string {
	l := strings.ToLower(name)
	if l == "ptsoffset" || l == "ptsoff" || l == "compositiontimeoffset" {
		return "off"
	}
	switch {
	case reDTS.MatchString(name):
		return "dts"
	case rePTS.MatchString(name):
		return "pts"
	}
	return ""
}

func isTimestampType(t types.Type) bool {
	if t == nil {
		return false
	}
	b, ok := t.Underlying().(*types.Basic)
	return ok && b.Info()&types.IsInteger != 0
}

func isDTSExtract(in ssa.Instruction) bool {
	call, ok := in.(*ssa.Call)
	if !ok {
		return false
	}
	cal := call.Call.StaticCallee()
	if cal == nil || cal.Name() != "Extract" || cal.Signature.Recv() == nil {
		return false
	}
	n := namedOf(cal.Signature.Recv().Type())
	return n != nil && strings.Contains(n.Obj().Name(), "DTSExtractor")
}

// tsSlice is the set of timestamp roles in the backward data slice of v (within one function).
func tsSlice(v ssa.Value, seen map[ssa.Value]bool, out map[string]bool) {
	if v == nil || seen[v] {
		return
	}
	seen[v] = true
	if len(seen) > 4000 {
		return
	}
	switch x := v.(type) {
	case *ssa.Parameter:
		if r := tsRole(x.Name()); r == "dts" || r == "pts" {
			out[r] = true
		}
	case *ssa.FreeVar:
		if r := tsRole(x.Name()); r == "dts" || r == "pts" {
			out[r] = true
		}
	case *ssa.Const:
	case *ssa.Call:
		if isDTSExtract(x) {
			out["dts"] = true
			return
		}
		for _, a := range x.Call.Args {
			if isTimestampType(a.Type()) {
				tsSlice(a, seen, out)
			}
		}
	case *ssa.Extract:
		tsSlice(x.Tuple, seen, out)
	case *ssa.BinOp:
		tsSlice(x.X, seen, out)
		tsSlice(x.Y, seen, out)
	case *ssa.Convert:
		tsSlice(x.X, seen, out)
	case *ssa.ChangeType:
		tsSlice(x.X, seen, out)
	case *ssa.Phi:
		for _, e := range x.Edges {
			tsSlice(e, seen, out)
		}
	case *ssa.Field:
		if f, _ := fieldOfValue(x); f != nil {
			if r := tsRole(f.Name()); r == "dts" || r == "pts" {
				out[r] = true
			}
		}
	case *ssa.UnOp:
		if x.Op != token.MUL {
			tsSlice(x.X, seen, out)
			return
		}
		if f, _ := fieldOfAddr(x.X); f != nil {
			if r := tsRole(f.Name()); r == "dts" || r == "pts" {
				out[r] = true
			}
			return
		}
		// a local cell: every value stored into it in this function (and its closures)
		switch cell := x.X.(type) {
		case *ssa.Alloc:
			if r := tsRole(cell.Comment); r == "dts" || r == "pts" {
				// a named local `dts` is not a source by itself; follow its stores
				_ = r
			}
			for _, ref := range *cell.Referrers() {
				if st, ok := ref.(*ssa.Store); ok && st.Addr == cell {
					tsSlice(st.Val, seen, out)
				}
			}
		case *ssa.FreeVar:
			if r := tsRole(cell.Name()); r == "dts" || r == "pts" {
				out[r] = true
			}
		}
	}
}

type tsSink struct {
	in   ssa.Instruction
	role string
	val  ssa.Value
	what string
}

func ruleF16(c *Ctx) *RuleResult {
	r := &RuleResult{Floor: 40, FloorWhat: "timestamp sinks in functions that have a source of the same role"}
	n := 0
	perFn := map[string]int{}
	for _, fn := range c.Funcs {
		// sources available in fn
		have := map[string]bool{}
		for _, p := range fn.Params {
			if isTimestampType(p.Type()) {
				if ro := tsRole(p.Name()); ro == "dts" || ro == "pts" {
					have[ro] = true
				}
			}
		}
		for _, p := range fn.FreeVars {
			if ro := tsRole(p.Name()); ro == "dts" || ro == "pts" {
				have[ro] = true
			}
		}
		var sinks []tsSink
		allInstrs(fn, func(in ssa.Instruction) {
			switch x := in.(type) {
			case *ssa.UnOp:
				if x.Op == token.MUL && isTimestampType(x.Type()) {
					// only a field that IS the unit's time (sample.dts), not a boundary such as startDTS
					if f, _ := fieldOfAddr(x.X); f != nil {
						if ro := tsRole(f.Name()); (ro == "dts" || ro == "pts") && strings.ToLower(f.Name()) == ro {
							have[ro] = true
						}
					}
				}
			case *ssa.Field:
				if f, _ := fieldOfValue(x); f != nil && isTimestampType(x.Type()) {
					if ro := tsRole(f.Name()); (ro == "dts" || ro == "pts") && strings.ToLower(f.Name()) == ro {
						have[ro] = true
					}
				}
			case *ssa.Store:
				if f, _ := fieldOfAddr(x.Addr); f != nil && isTimestampType(f.Type()) {
					if ro := tsRole(f.Name()); ro != "" {
						sinks = append(sinks, tsSink{in, ro, x.Val, "field " + c.fieldName(f)})
					}
				}
			}
			if isDTSExtract(in) {
				have["dts"] = true
			}
			if ci, ok := in.(ssa.CallInstruction); ok {
				com := ci.Common()
				sig := com.Signature()
				if sig == nil {
					return
				}
				off := 0
				if !com.IsInvoke() && sig.Recv() != nil {
					off = 1
				}
				callee := "dynamic call"
				if sc := com.StaticCallee(); sc != nil {
					callee = FuncName(sc)
				} else if com.IsInvoke() {
					callee = com.Method.FullName()
				}
				for i := 0; i < sig.Params().Len(); i++ {
					p := sig.Params().At(i)
					if !isTimestampType(p.Type()) || i+off >= len(com.Args) {
						continue
					}
					if ro := tsRole(p.Name()); ro != "" {
						sinks = append(sinks, tsSink{in, ro, com.Args[i+off], "parameter " + p.Name() + " of " + callee})
					}
				}
			}
		})
		for _, s := range sinks {
			var need []string
			switch s.role {
			case "dts", "pts":
				if have[s.role] {
					need = []string{s.role}
				}
			case "off":
				if have["dts"] && have["pts"] {
					need = []string{"dts", "pts"}
				}
			}
			if len(need) == 0 {
				continue
			}
			if k, ok := s.val.(*ssa.Const); ok && k != nil {
				continue // a constant (zero value) carries no time
			}
			n++
			perFn[FuncName(fn)+"|"+s.what]++
			key := fmt.Sprintf("%s|%s#%d", FuncName(fn), s.what, perFn[FuncName(fn)+"|"+s.what])
			got := map[string]bool{}
			tsSlice(s.val, map[ssa.Value]bool{}, got)
			var missing []string
			for _, nd := range need {
				if !got[nd] {
					missing = append(missing, nd)
				}
			}
			what := "the " + s.what + " receives a value computed from the function's " + strings.Join(need, " and ") + " source"
			if len(missing) == 0 {
				r.ok(key, c.Pos(posOf(s.in)), FuncName(fn), what, "backward data slice reaches "+strings.Join(sortedKeys(got), "+"))
			} else {
				r.fail(key, c.Pos(posOf(s.in)), FuncName(fn), what,
					fmt.Sprintf("the value passed (%s) is computed from %v only, although the function has a %s source: the two clocks differ as soon as frames are reordered (B-frames), so every unit is stamped with the wrong time", s.val.String(), sortedKeys(got), strings.Join(missing, ",")))
			}
		}
	}
	r.Instances = n
	return r
}

func ruleG13(c *Ctx) *RuleResult {
	r := &RuleResult{Floor: 2, FloorWhat: "rotations of the non-leading streams"}
	leadF := c.Field("", "Muxer", "leadingStream")
	streamsF := c.Field("", "Muxer", "streams")
	isLeadF := c.Field("", "muxerStream", "isLeading")
	if leadF == nil || streamsF == nil || isLeadF == nil {
		r.undecided("Muxer.leadingStream / Muxer.streams / muxerStream.isLeading not found")
		return r
	}
	n := 0
	var fns []*ssa.Function
	for _, fn := range c.Funcs {
		if fn.Signature.Recv() == nil || !typeIs(fn.Signature.Recv().Type(), modPath, "Muxer") {
			continue
		}
		fns = append(fns, fn)
	}
	sort.Slice(fns, func(i, j int) bool { return fns[i].String() < fns[j].String() })
	for _, fn := range fns {
		// rotations of m.leadingStream in this function
		var leadCalls []*ssa.Call
		allInstrs(fn, func(in ssa.Instruction) {
			if call, ok := in.(*ssa.Call); ok {
				cal := call.Call.StaticCallee()
				if cal != nil && cal.Signature.Recv() != nil && typeIs(cal.Signature.Recv().Type(), modPath, "muxerStream") && strings.HasPrefix(cal.Name(), "rotate") {
					if f, _ := loadedField(call.Call.Args[0]); f == leadF {
						leadCalls = append(leadCalls, call)
					}
				}
			}
		})
		for _, lc := range leadCalls {
			callee := lc.Call.StaticCallee()
			n++
			key := fmt.Sprintf("%s|others %s", FuncName(fn), callee.Name())
			what := "each stream other than the leading one gets the same " + callee.Name() + " call, exactly once"
			var others []*ssa.Call
			allInstrs(fn, func(in ssa.Instruction) {
				if call, ok := in.(*ssa.Call); ok && call != lc && call.Call.StaticCallee() == callee {
					others = append(others, call)
				}
			})
			if len(others) != 1 {
				r.undecided("G13: %s has %d calls of %s next to the one for m.leadingStream; the rule knows the form `one call inside a range over m.streams` only", FuncName(fn), len(others), callee.Name())
				continue
			}
			oc := others[0]
			// receiver: t[i] with t = load of m.streams, i the index of a range over t
			recv := oc.Call.Args[0]
			ld, ok := recv.(*ssa.UnOp)
			var ia *ssa.IndexAddr
			if ok && ld.Op == token.MUL {
				ia, _ = ld.X.(*ssa.IndexAddr)
			}
			if ia == nil {
				r.undecided("G13: in %s the receiver of %s is not an element of a ranged-over slice (%s): form not known to the rule", FuncName(fn), callee.Name(), recv.String())
				continue
			}
			if f, _ := loadedField(ia.X); f != streamsF {
				if sl, isSlice := ia.X.(*ssa.Slice); isSlice {
					if sf, _ := loadedField(sl.X); sf == streamsF && (sl.Low != nil || sl.High != nil) {
						r.fail(key, c.Pos(oc.Pos()), FuncName(fn), what,
							"the range is over a sub-slice of m.streams, i.e. the other streams are picked by position: the leading stream is the video one wherever it is listed, so with a non-video track listed before it a stream is never rotated (its playlist blocks for ever, its units are lost) and the leading one is rotated twice")
						continue
					}
				}
				r.undecided("G13: in %s the range is over %s, not over m.streams: form not known to the rule", FuncName(fn), describeVal(ia.X))
				continue
			}
			isRange, over := rangeIndexOver(ia.Index)
			if isRange && over != ia.X {
				if f2, _ := loadedField(over); f2 == streamsF {
					over = ia.X // a hand-written index loop loads m.streams again for its condition
				}
			}
			if !isRange || over != ia.X {
				r.fail(key, c.Pos(oc.Pos()), FuncName(fn), what, "the index "+ia.Index.String()+" is not the index of a range over the whole m.streams")
				continue
			}
			// guard: executed only if !elem.isLeading, and whenever !elem.isLeading
			conds := ifsOn(fn, func(v ssa.Value) bool {
				f, base := loadedField(v)
				return f == isLeadF && sameElem(base, recv)
			})
			if len(conds) == 0 || !onlyIf(fn, oc, conds, false) {
				r.fail(key, c.Pos(oc.Pos()), FuncName(fn), what, "the call is not restricted to elements with isLeading == false: the leading stream is rotated twice per boundary (an empty zero-duration segment after every real one)")
				continue
			}
			cut := map[edge]bool{}
			for _, ci := range conds {
				b := ci.If.Block()
				idx := 0 // successor taken when isLeading is true
				if !ci.Pol {
					idx = 1
				}
				cut[edge{b.Index, b.Succs[idx].Index}] = true
			}
			header := ia.Index.(*ssa.BinOp).X.(*ssa.Phi).Block()
			seen := reachableBlocks(fn, ia.Block().Index, cut, map[int]bool{oc.Block().Index: true})
			if ia.Block() != oc.Block() && seen[header.Index] {
				r.fail(key, c.Pos(oc.Pos()), FuncName(fn), what, "an iteration for a non-leading stream can reach the next iteration without the call (a further condition guards it): that stream misses a boundary and its segment numbering falls behind the leading stream's")
				continue
			}
			r.ok(key, c.Pos(oc.Pos()), FuncName(fn), what, "range over m.streams, call guarded by !isLeading only")
		}
	}
	r.Instances = n
	return r
}

// sameElem: both values are loads of the same t[i] address expression (same slice value and index).
func sameElem(a, b ssa.Value) bool {
	if a == b {
		return true
	}
	la, ok1 := a.(*ssa.UnOp)
	lb, ok2 := b.(*ssa.UnOp)
	if !ok1 || !ok2 || la.Op != token.MUL || lb.Op != token.MUL {
		return false
	}
	ia, ok1 := la.X.(*ssa.IndexAddr)
	ib, ok2 := lb.X.(*ssa.IndexAddr)
	if !ok1 || !ok2 {
		return la.X == lb.X
	}
	return ia.X == ib.X && ia.Index == ib.Index
}

func describeVal(v ssa.Value) string {
	if p := accessPath(v); p != "" {
		return p
	}
	return v.String()
}

func init() {
	registerRule("T7d", "reader progress: a Read implemented by the library itself (not delegated) returns (n, nil) only where `n == len(p)` (the destination is full) or `n > 0` is established on the path; otherwise it returns an error/EOF", ruleT7d)
}

func ruleT7d(c *Ctx) *RuleResult {
	r := &RuleResult{Floor: 1, FloorWhat: "returns with a nil error in library Read implementations"}
	n := 0
	for _, fn := range c.Funcs {
		if fn.Name() != "Read" || fn.Signature.Recv() == nil || fn.Signature.Params().Len() != 1 || fn.Signature.Results().Len() != 2 {
			continue
		}
		if _, ok := fn.Signature.Params().At(0).Type().Underlying().(*types.Slice); !ok {
			continue
		}
		r.analysed(FuncName(fn))
		p := fn.Params[1]
		isLenP := func(v ssa.Value) bool {
			v = stripConv(v)
			if call, ok := v.(*ssa.Call); ok {
				if b, ok := call.Call.Value.(*ssa.Builtin); ok && b.Name() == "len" && call.Call.Args[0] == p {
					return true
				}
			}
			return false
		}
		k := 0
		for _, b := range fn.Blocks {
			ret, ok := b.Instrs[len(b.Instrs)-1].(*ssa.Return)
			if !ok {
				continue
			}
			ev := retVal(ret, 1)
			ec, ok := ev.(*ssa.Const)
			if !ok || !ec.IsNil() {
				continue
			}
			nv := retVal(ret, 0)
			n++
			k++
			key := fmt.Sprintf("%s|return-nil#%d", FuncName(fn), k)
			what := "a return with a nil error reports progress (n > 0) or a full destination (n == len(p))"
			if kk, ok := constInt(nv); ok && kk > 0 {
				r.ok(key, c.Pos(ret.Pos()), FuncName(fn), what, "constant positive count")
				continue
			}
			good := ""
			for _, f := range factsAt(b) {
				bo, ok := f.cond.(*ssa.BinOp)
				if !ok {
					continue
				}
				switch {
				case bo.Op == token.EQL && f.pol && ((sameValueLoose(bo.X, nv) && isLenP(bo.Y)) || (sameValueLoose(bo.Y, nv) && isLenP(bo.X))):
					good = "n == len(p) holds on the path"
				case bo.Op == token.NEQ && !f.pol && ((sameValueLoose(bo.X, nv) && isLenP(bo.Y)) || (sameValueLoose(bo.Y, nv) && isLenP(bo.X))):
					good = "n == len(p) holds on the path"
				case bo.Op == token.GEQ && f.pol && sameValueLoose(bo.X, nv) && isLenP(bo.Y):
					good = "n >= len(p) holds on the path"
				case bo.Op == token.GTR && f.pol && sameValueLoose(bo.X, nv):
					if z, ok := constInt(bo.Y); ok && z >= 0 {
						good = "n > 0 holds on the path"
					}
				case bo.Op == token.NEQ && f.pol && sameValueLoose(bo.X, nv):
					if z, ok := constInt(bo.Y); ok && z == 0 {
						good = "n != 0 holds on the path"
					}
				}
			}
			if good != "" {
				r.ok(key, c.Pos(ret.Pos()), FuncName(fn), what, good)
			} else {
				r.fail(key, c.Pos(ret.Pos()), FuncName(fn), what,
					"nothing on the path establishes n == len(p) or n > 0: at a part that was never written to (an empty part) the reader returns (0, nil) without advancing, for ever, and the parts after it are never delivered")
			}
		}
	}
	r.Instances = n
	return r
}

func init() {
	registerRule("G7c", "request range tracks the window: where a blocking reload is rejected with 400 inside the wait loop, the lower (expired) bound compared with the requested number is computed from the live window (muxerStream.segments or the delete counter) and the upper bound from the segment counter — never from configuration alone", ruleG7c)
}

// fieldsInSlice collects the struct fields loaded in the backward data slice of v.
func fieldsInSlice(v ssa.Value, seen map[ssa.Value]bool, out map[*types.Var]bool) {
	if v == nil || seen[v] || len(seen) > 2000 {
		return
	}
	seen[v] = true
	switch x := v.(type) {
	case *ssa.BinOp:
		fieldsInSlice(x.X, seen, out)
		fieldsInSlice(x.Y, seen, out)
	case *ssa.Convert:
		fieldsInSlice(x.X, seen, out)
	case *ssa.ChangeType:
		fieldsInSlice(x.X, seen, out)
	case *ssa.Phi:
		for _, e := range x.Edges {
			fieldsInSlice(e, seen, out)
		}
	case *ssa.Call:
		for _, a := range x.Call.Args {
			fieldsInSlice(a, seen, out)
		}
	case *ssa.Extract:
		fieldsInSlice(x.Tuple, seen, out)
	case *ssa.Field:
		if f, _ := fieldOfValue(x); f != nil {
			out[f] = true
		}
	case *ssa.UnOp:
		if x.Op != token.MUL {
			fieldsInSlice(x.X, seen, out)
			return
		}
		if f, _ := fieldOfAddr(x.X); f != nil {
			out[f] = true
			return
		}
		if al, ok := x.X.(*ssa.Alloc); ok {
			for _, ref := range *al.Referrers() {
				if st, ok := ref.(*ssa.Store); ok && st.Addr == al {
					fieldsInSlice(st.Val, seen, out)
				}
			}
		}
	}
}

func ruleG7c(c *Ctx) *RuleResult {
	r := &RuleResult{Floor: 2, FloorWhat: "range comparisons that reject a blocking reload"}
	top := c.Method("", "muxerStream", "handleMediaPlaylist")
	segF := c.Field("", "muxerStream", "segments")
	delF := c.Field("", "muxerStream", "segmentDeleteCount")
	nextF := c.Field("", "muxerStream", "nextSegmentID")
	if top == nil || segF == nil || delF == nil || nextF == nil {
		r.undecided("handleMediaPlaylist / segments / segmentDeleteCount / nextSegmentID not found")
		return r
	}
	n := 0
	// the wait loop may sit in a closure of handleMediaPlaylist or in a helper it calls
	var cands []*ssa.Function
	for fn := range c.reach([]*ssa.Function{top}, func(f *ssa.Function) bool { return !InRootPkg(f) }) {
		cands = append(cands, fn)
	}
	for _, fn := range withAnon(top) {
		cands = appendUnique(cands, fn)
	}
	sort.Slice(cands, func(i, j int) bool { return cands[i].String() < cands[j].String() })
	for _, fn := range cands {
		hasWait := false
		nl, nu := 0, 0
		allInstrs(fn, func(in ssa.Instruction) {
			if ci, ok := in.(ssa.CallInstruction); ok && classifySync(ci.Common()) == opWait {
				hasWait = true
			}
		})
		if !hasWait {
			continue
		}
		is400 := func(b *ssa.BasicBlock) bool {
			for _, in := range b.Instrs {
				if ci, ok := in.(ssa.CallInstruction); ok && ci.Common().IsInvoke() && ci.Common().Method.Name() == "WriteHeader" {
					if k, ok := constInt(ci.Common().Args[0]); ok && k == 400 {
						return true
					}
				}
			}
			return false
		}
		for _, b := range fn.Blocks {
			iff, ok := b.Instrs[len(b.Instrs)-1].(*ssa.If)
			if !ok || !is400(b.Succs[0]) {
				continue
			}
			bo, ok := iff.Cond.(*ssa.BinOp)
			if !ok {
				continue
			}
			fx, fy := map[*types.Var]bool{}, map[*types.Var]bool{}
			fieldsInSlice(bo.X, map[ssa.Value]bool{}, fx)
			fieldsInSlice(bo.Y, map[ssa.Value]bool{}, fy)
			// only fields of the muxer's own objects are state (the request may travel in a small struct)
			for _, m := range []map[*types.Var]bool{fx, fy} {
				for f := range m {
					if o := c.fieldOwner(f); !strings.HasPrefix(o, "muxer") && !strings.HasPrefix(o, "Muxer") {
						delete(m, f)
					}
				}
			}
			op := bo.Op
			state := fy
			if len(fx) > 0 && len(fy) == 0 {
				// state on the left: mirror
				state = fx
				switch op {
				case token.LSS:
					op = token.GTR
				case token.LEQ:
					op = token.GEQ
				case token.GTR:
					op = token.LSS
				case token.GEQ:
					op = token.LEQ
				}
			} else if len(fx) > 0 {
				continue // both sides are state: not a request-range test
			}
			var names []string
			for f := range state {
				names = append(names, c.fieldName(f))
			}
			sort.Strings(names)
			switch op {
			case token.LSS, token.LEQ:
				n++
				nl++
				key := fmt.Sprintf("%s|expired-bound#%d", FuncName(fn), nl)
				what := "the lowest number still accepted is computed from the live window"
				if state[segF] || state[delF] {
					r.ok(key, c.Pos(bo.Pos()), FuncName(fn), what, "bound depends on "+strings.Join(names, ", "))
				} else {
					r.fail(key, c.Pos(bo.Pos()), FuncName(fn), what,
						"the bound depends on "+strings.Join(names, ", ")+" only, not on the window: while the window is not yet full (SegmentCount larger than the number of segments produced so far) the unsigned subtraction wraps and every blocking reload, including the one for the open segment, is answered 400")
				}
			case token.GTR, token.GEQ:
				n++
				nu++
				key := fmt.Sprintf("%s|advance-bound#%d", FuncName(fn), nu)
				what := "the highest number still accepted is computed from the segment counter"
				if state[nextF] {
					r.ok(key, c.Pos(bo.Pos()), FuncName(fn), what, "bound depends on "+strings.Join(names, ", "))
				} else {
					r.fail(key, c.Pos(bo.Pos()), FuncName(fn), what, "the bound depends on "+strings.Join(names, ", ")+" only: requests for the open segment or the one after it are rejected or far-future ones block for ever")
				}
			}
		}
	}
	r.Instances = n
	return r
}

func init() {
	registerRule("L9", "no response body under a lock: wherever muxer code writes a body to the http.ResponseWriter (w.Write, io.Copy(w, …)) no muxer lock may be held — the write lasts as long as the slowest client takes to drain it, and every other request and the writer need that lock", ruleL9)
}

func isResponseWriter(v ssa.Value) bool {
	for i := 0; i < 4; i++ {
		if typeIs(v.Type(), "net/http", "ResponseWriter") {
			return true
		}
		switch x := v.(type) {
		case *ssa.MakeInterface:
			v = x.X
		case *ssa.ChangeInterface:
			v = x.X
		default:
			return false
		}
	}
	return false
}

func ruleL9(c *Ctx) *RuleResult {
	r := &RuleResult{Floor: 6, FloorWhat: "response body writes in muxer code"}
	li := c.locks()
	la := c.muxerLockAnalysis()
	n := 0
	for _, fn := range la.functions() {
		if !InRootPkg(fn) {
			continue
		}
		cnt := 0
		allInstrs(fn, func(in ssa.Instruction) {
			ci, ok := in.(ssa.CallInstruction)
			if !ok {
				return
			}
			com := ci.Common()
			what := ""
			switch {
			case com.IsInvoke() && com.Method.Name() == "Write" && isResponseWriter(com.Value):
				what = "w.Write"
			case isFuncNamed(com.StaticCallee(), "io", "Copy") && len(com.Args) > 0 && isResponseWriter(com.Args[0]):
				what = "io.Copy(w, …)"
			case isFuncNamed(com.StaticCallee(), "io", "CopyN") && len(com.Args) > 0 && isResponseWriter(com.Args[0]):
				what = "io.CopyN(w, …)"
			case isFuncNamed(com.StaticCallee(), "io", "CopyBuffer") && len(com.Args) > 0 && isResponseWriter(com.Args[0]):
				what = "io.CopyBuffer(w, …)"
			}
			if what == "" {
				return
			}
			_, may, reached := la.heldAt(in)
			if !reached {
				return
			}
			n++
			cnt++
			key := fmt.Sprintf("%s|body-write#%d", FuncName(fn), cnt)
			req := "no muxer lock may be held while a response body is written"
			if may == 0 {
				r.ok(key, c.Pos(posOf(in)), FuncName(fn), req, what+" with empty may-held set")
			} else {
				r.fail(key, c.Pos(posOf(in)), FuncName(fn), req, what+" while "+li.names(may)+" may be held: one requester that stalls in the middle of the body keeps the lock, so every blocking reload whose part is already published, every other download and the writer's next rotation hang until it drains")
			}
		})
	}
	r.Instances = n
	return r
}

func init() {
	registerRule("F17", "running clocks advance on every iteration: a loop-carried decode/presentation time that some path of the loop body advances (`t += duration`) is advanced on every path that starts the next iteration (no `continue` in front of the increment)", ruleF17)
	registerRule("F18", "segment identity is computed within one playlist: the id the client remembers is `X.MediaSequence + position` where the position comes from a search over the same X.Segments", ruleF18)
	registerRule("F19", "a delta request keeps the playlist URL's own query: the RawQuery written for `_HLS_skip` is the Encode() of the Values parsed from the URL being requested", ruleF19)
	registerRule("F20", "byte ranges: the first byte of a Range header is computed from the range start, the last byte from the start and the length", ruleF20)
}

func ruleF17(c *Ctx) *RuleResult {
	r := &RuleResult{Floor: 2, FloorWhat: "loop-carried timestamps"}
	n := 0
	for _, fn := range c.Funcs {
		if !InRootPkg(fn) {
			continue
		}
		k := 0
		for _, b := range fn.Blocks {
			for _, in := range b.Instrs {
				phi, ok := in.(*ssa.Phi)
				if !ok {
					break
				}
				role := tsRole(phi.Comment)
				if role != "dts" && role != "pts" {
					continue
				}
				// resolve the values arriving over back edges (through inner phis)
				var backVals []ssa.Value
				var collect func(v ssa.Value, depth int)
				seen := map[ssa.Value]bool{}
				collect = func(v ssa.Value, depth int) {
					if seen[v] || depth > 8 {
						return
					}
					seen[v] = true
					if p2, ok := v.(*ssa.Phi); ok && p2 != phi && b.Dominates(p2.Block()) {
						for _, e := range p2.Edges {
							collect(e, depth+1)
						}
						return
					}
					backVals = append(backVals, v)
				}
				for i, e := range phi.Edges {
					if b.Dominates(b.Preds[i]) {
						collect(e, 0)
					}
				}
				if len(backVals) == 0 {
					continue
				}
				advances, stale := 0, 0
				for _, v := range backVals {
					if bo, ok := v.(*ssa.BinOp); ok && bo.Op == token.ADD && (bo.X == phi || bo.Y == phi) {
						advances++
					} else if v == phi {
						stale++
					}
				}
				if advances == 0 {
					continue // not an accumulator
				}
				n++
				k++
				key := fmt.Sprintf("%s|running %s#%d", FuncName(fn), phi.Comment, k)
				what := "the running time `" + phi.Comment + "` is advanced on every path into the next iteration"
				if stale == 0 {
					r.ok(key, c.Pos(phi.Pos()), FuncName(fn), what, fmt.Sprintf("%d back edge value(s), all of the form %s + …", advances, phi.Comment))
				} else {
					r.fail(key, c.Pos(phi.Pos()), FuncName(fn), what,
						"a path of the loop body starts the next iteration with the old value (a `continue` in front of the increment): every later unit of the call is stamped with the time of the skipped one")
				}
			}
		}
	}
	r.Instances = n
	return r
}

func ruleF18(c *Ctx) *RuleResult {
	r := &RuleResult{Floor: 1, FloorWhat: "stores of the current segment id"}
	curF := c.Field("", "clientStreamDownloader", "curSegmentID")
	msF := c.Field("pkg/playlist", "Media", "MediaSequence")
	sgF := c.Field("pkg/playlist", "Media", "Segments")
	if curF == nil || msF == nil || sgF == nil {
		r.undecided("clientStreamDownloader.curSegmentID / playlist.Media.MediaSequence / Segments not found")
		return r
	}
	n := 0
	per := map[*ssa.Function]int{}
	for _, fn := range c.Funcs {
		for _, st := range storesToField(c, fn, curF) {
			if k, ok := st.Val.(*ssa.Const); ok && k.IsNil() {
				continue
			}
			n++
			per[fn]++
			key := fmt.Sprintf("%s|segment-id#%d", FuncName(fn), per[fn])
			what := "the remembered id is X.MediaSequence + (position found in X.Segments)"
			// the value is the address of a cell; the value stored into the cell
			var val ssa.Value
			if al, ok := st.Val.(*ssa.Alloc); ok {
				for _, ref := range *al.Referrers() {
					if s2, ok := ref.(*ssa.Store); ok && s2.Addr == al {
						val = s2.Val
					}
				}
			}
			bo, ok := val.(*ssa.BinOp)
			if !ok || bo.Op != token.ADD {
				r.undecided("F18: the id stored by %s is not a sum MediaSequence + position: form not known to the rule", FuncName(fn))
				continue
			}
			var base ssa.Value
			var pos ssa.Value
			if f, b := loadedField(stripConv(bo.X)); f == msF {
				base, pos = b, bo.Y
			} else if f, b := loadedField(stripConv(bo.Y)); f == msF {
				base, pos = b, bo.X
			}
			if base == nil {
				r.undecided("F18: no MediaSequence operand in the id stored by %s: form not known to the rule", FuncName(fn))
				continue
			}
			// every Segments list that the position is searched in (followed into helper methods of the library
			// that return the position: their parameters are mapped back to the caller's arguments)
			bad := ""
			cnt := 0
			seen := map[ssa.Value]bool{}
			var walk func(v ssa.Value, env map[ssa.Value]ssa.Value, depth int)
			resolve := func(b ssa.Value, env map[ssa.Value]ssa.Value) ssa.Value {
				b = canon(b)
				for i := 0; i < 4; i++ {
					if a, ok := env[b]; ok {
						b = canon(a)
						continue
					}
					break
				}
				return b
			}
			walk = func(v ssa.Value, env map[ssa.Value]ssa.Value, depth int) {
				if v == nil || seen[v] || depth > 3 {
					return
				}
				seen[v] = true
				switch x := stripConv(v).(type) {
				case *ssa.Phi:
					for _, e := range x.Edges {
						walk(e, env, depth)
					}
				case *ssa.Extract:
					if call, ok := x.Tuple.(*ssa.Call); ok {
						if h := call.Call.StaticCallee(); h != nil && InRootPkg(h) && h.Blocks != nil && h.Signature.Recv() != nil {
							// a helper method: follow the returned position
							env2 := map[ssa.Value]ssa.Value{}
							for k, a := range call.Call.Args {
								if k < len(h.Params) {
									env2[h.Params[k]] = resolve(a, env)
								}
							}
							for _, b := range h.Blocks {
								if ret, ok := b.Instrs[len(b.Instrs)-1].(*ssa.Return); ok && x.Index < len(ret.Results) {
									walk(retVal(ret, x.Index), env2, depth+1)
								}
							}
							return
						}
					}
					walk(x.Tuple, env, depth)
				case *ssa.BinOp:
					walk(x.X, env, depth)
					walk(x.Y, env, depth)
				case *ssa.Call:
					for _, a := range x.Call.Args {
						if f, b := loadedField(a); f == sgF {
							cnt++
							if resolve(b, env) != canon(base) {
								bad = "the position comes from " + shortInstr(x) + " over the segments of " + describeVal(b) + " but is added to the MediaSequence of " + describeVal(base)
							}
						}
					}
				}
			}
			walk(pos, map[ssa.Value]ssa.Value{}, 0)
			switch {
			case bad != "":
				r.fail(key, c.Pos(st.Pos()), FuncName(fn), what, bad+": on a live playlist whose window has moved the remembered id is stale, the next reload re-downloads a segment or fails with `next segment not found`")
			case cnt == 0:
				r.undecided("F18: in %s the position added to MediaSequence is not the result of a search over a segment list: form not known to the rule", FuncName(fn))
			default:
				r.ok(key, c.Pos(st.Pos()), FuncName(fn), what, fmt.Sprintf("%d search(es) over the Segments of the same playlist value as the MediaSequence operand", cnt))
			}
		}
	}
	r.Instances = n
	return r
}

func ruleF19(c *Ctx) *RuleResult {
	r := &RuleResult{Floor: 1, FloorWhat: "RawQuery rewrites in client code"}
	n := 0
	per := map[*ssa.Function]int{}
	for _, fn := range c.Funcs {
		if !InRootPkg(fn) || !strings.Contains(FuncName(fn), "client") {
			continue
		}
		allInstrs(fn, func(in ssa.Instruction) {
			st, ok := in.(*ssa.Store)
			if !ok {
				return
			}
			f, base := fieldOfAddr(st.Addr)
			if f == nil || f.Name() != "RawQuery" || !typeIs(f.Pkg().Scope().Lookup("URL").Type(), "net/url", "URL") {
				return
			}
			n++
			per[fn]++
			key := fmt.Sprintf("%s|rawquery#%d", FuncName(fn), per[fn])
			what := "the rewritten query is the encoding of the values parsed from the same URL (its own parameters are kept)"
			// value: (url.Values).Encode() on a Values obtained from (*url.URL).Query() of `base`
			call, ok := st.Val.(*ssa.Call)
			if !ok || !isMethodNamed(call.Call.StaticCallee(), "net/url", "Values", "Encode") {
				r.undecided("F19: the query stored by %s is not a url.Values.Encode() result: form not known to the rule", FuncName(fn))
				return
			}
			src := canon(call.Call.Args[0])
			qc, ok := src.(*ssa.Call)
			if !ok || !isMethodNamed(qc.Call.StaticCallee(), "net/url", "URL", "Query") {
				r.fail(key, c.Pos(st.Pos()), FuncName(fn), what,
					"the encoded values ("+src.String()+") are not the result of Query() on the URL: a playlist URL that carries its own query (a token, a session id) loses it on every delta reload and the server answers 403/404")
				return
			}
			if !sameObject(qc.Call.Args[0], base) {
				r.fail(key, c.Pos(st.Pos()), FuncName(fn), what, "the values are parsed from another URL value than the one rewritten")
				return
			}
			r.ok(key, c.Pos(st.Pos()), FuncName(fn), what, "RawQuery = u.Query()…Encode() on the same URL value")
		})
	}
	r.Instances = n
	return r
}

// derefParams collects the pointer parameters / pointer-typed fields dereferenced in the slice of v.
func derefSources(v ssa.Value, seen map[ssa.Value]bool, out map[string]bool) {
	if v == nil || seen[v] || len(seen) > 2000 {
		return
	}
	seen[v] = true
	switch x := v.(type) {
	case *ssa.BinOp:
		derefSources(x.X, seen, out)
		derefSources(x.Y, seen, out)
	case *ssa.Convert:
		derefSources(x.X, seen, out)
	case *ssa.Phi:
		for _, e := range x.Edges {
			derefSources(e, seen, out)
		}
	case *ssa.Parameter:
		out["param:"+x.Name()] = true
	case *ssa.UnOp:
		if x.Op != token.MUL {
			derefSources(x.X, seen, out)
			return
		}
		if f, _ := fieldOfAddr(x.X); f != nil {
			out["field:"+f.Name()] = true
			return
		}
		switch y := x.X.(type) {
		case *ssa.Alloc:
			for _, ref := range *y.Referrers() {
				if st, ok := ref.(*ssa.Store); ok && st.Addr == y {
					derefSources(st.Val, seen, out)
				}
			}
		default:
			derefSources(x.X, seen, out)
		}
	}
}

func ruleF20(c *Ctx) *RuleResult {
	r := &RuleResult{Floor: 2, FloorWhat: "Range headers built by the client"}
	n := 0
	per := map[*ssa.Function]int{}
	for _, fn := range c.Funcs {
		if !InRootPkg(fn) {
			continue
		}
		allInstrs(fn, func(in ssa.Instruction) {
			call, ok := in.(*ssa.Call)
			if !ok || !isMethodNamed(call.Call.StaticCallee(), "net/http", "Header", "Add") && !isMethodNamed(call.Call.StaticCallee(), "net/http", "Header", "Set") {
				return
			}
			if s, ok := constString(call.Call.Args[1]); !ok || s != "Range" {
				return
			}
			n++
			per[fn]++
			key := fmt.Sprintf("%s|range#%d", FuncName(fn), per[fn])
			what := "first byte = start, last byte computed from start and length"
			// the value: a left-leaning concatenation; collect the FormatUint operands in order
			var nums []ssa.Value
			var walk func(v ssa.Value)
			walk = func(v ssa.Value) {
				switch x := v.(type) {
				case *ssa.BinOp:
					if x.Op == token.ADD {
						walk(x.X)
						walk(x.Y)
					}
				case *ssa.Call:
					if isFuncNamed(x.Call.StaticCallee(), "strconv", "FormatUint") || isFuncNamed(x.Call.StaticCallee(), "strconv", "FormatInt") || isFuncNamed(x.Call.StaticCallee(), "strconv", "Itoa") {
						nums = append(nums, x.Call.Args[0])
					}
					// fmt.Sprintf("bytes=%d-%d", first, last)
					if isFuncNamed(x.Call.StaticCallee(), "fmt", "Sprintf") && len(x.Call.Args) == 2 {
						if f, ok := constString(x.Call.Args[0]); ok && strings.Count(f, "%") == 2 {
							nums = append(nums, variadicArgs(x.Call.Args[1])...)
						}
					}
				}
			}
			walk(call.Call.Args[2])
			if len(nums) != 2 {
				r.undecided("F20: the Range header of %s is not built from two formatted numbers (%d found): form not known to the rule", FuncName(fn), len(nums))
				return
			}
			s0, s1 := map[string]bool{}, map[string]bool{}
			derefSources(nums[0], map[ssa.Value]bool{}, s0)
			derefSources(nums[1], map[ssa.Value]bool{}, s1)
			// the start source(s) are those of the first number; the last byte must depend on them and on one more
			missing := ""
			for k := range s0 {
				if !s1[k] {
					missing = k
				}
			}
			extra := false
			for k := range s1 {
				if !s0[k] {
					extra = true
				}
			}
			switch {
			case len(s0) == 0:
				r.fail(key, c.Pos(call.Pos()), FuncName(fn), what, "the first byte does not depend on any range start")
			case missing != "":
				r.fail(key, c.Pos(call.Pos()), FuncName(fn), what, "the last byte ("+nums[1].String()+") does not depend on the start ("+missing+"): for a range that does not begin at 0 the request asks for bytes before the range (or an empty range), the wrong part of the file is parsed")
			case !extra:
				r.fail(key, c.Pos(call.Pos()), FuncName(fn), what, "the last byte does not depend on the length")
			default:
				r.ok(key, c.Pos(call.Pos()), FuncName(fn), what, "first from "+strings.Join(sortedKeys(s0), ",")+"; last from "+strings.Join(sortedKeys(s1), ","))
			}
		})
	}
	r.Instances = n
	return r
}

func init() {
	registerRule("V4e", "unchecked map lookups: a map of pointers that client code indexes without the comma-ok form and then dereferences is filled by a loop in which every iteration that goes on to the next one has stored its entry (an element that cannot get an entry ends the function instead of being skipped)", ruleV4e)
}

func ruleV4e(c *Ctx) *RuleResult {
	r := &RuleResult{Floor: 5, FloorWhat: "unchecked, dereferenced map lookups in client code"}
	// (1) unchecked lookups whose result is dereferenced
	type site struct {
		lk *ssa.Lookup
		f  *types.Var
	}
	var sites []site
	for _, fn := range c.clientFuncs() {
		allInstrs(fn, func(in ssa.Instruction) {
			lk, ok := in.(*ssa.Lookup)
			if !ok || lk.CommaOk {
				return
			}
			mt, ok := lk.X.Type().Underlying().(*types.Map)
			if !ok {
				return
			}
			if _, isPtr := mt.Elem().Underlying().(*types.Pointer); !isPtr {
				return
			}
			f, _ := loadedField(lk.X)
			if f == nil {
				return
			}
			deref := false
			for _, ref := range *lk.Referrers() {
				switch x := ref.(type) {
				case *ssa.FieldAddr:
					deref = true
				case *ssa.UnOp:
					if x.Op == token.MUL {
						deref = true
					}
				case *ssa.Call:
					if !x.Call.IsInvoke() && len(x.Call.Args) > 0 && x.Call.Args[0] == ssa.Value(lk) && x.Call.StaticCallee() != nil && x.Call.StaticCallee().Signature.Recv() != nil {
						deref = true
					}
				}
			}
			if deref && !nonNilValue(lk, firstUse(lk), 0) {
				sites = append(sites, site{lk, f})
			}
		})
	}
	per := map[string]int{}
	for _, s := range sites {
		fn := s.lk.Parent()
		fname := c.fieldName(s.f)
		per[FuncName(fn)+fname]++
		key := fmt.Sprintf("%s|lookup %s#%d", FuncName(fn), fname, per[FuncName(fn)+fname])
		what := "the map " + fname + " has an entry for every element its filling loop went past"
		// (2) the loops that fill the map
		bad := ""
		nUpd := 0
		for _, g := range c.Funcs {
			allInstrs(g, func(in ssa.Instruction) {
				mu, ok := in.(*ssa.MapUpdate)
				if !ok {
					return
				}
				if mf, _ := loadedField(mu.Map); mf != s.f {
					return
				}
				nUpd++
				// innermost loop header of the update: a block that dominates it and is reachable from it
				var header *ssa.BasicBlock
				for _, h := range g.Blocks {
					if h != mu.Block() && h.Dominates(mu.Block()) && reachFromTo(g, mu.Block(), h) {
						if header == nil || header.Dominates(h) {
							header = h
						}
					}
				}
				if header == nil {
					return // a single insertion outside any loop
				}
				blocked := map[int]bool{mu.Block().Index: true}
				for _, su := range header.Succs {
					if !reachFromTo(g, su, header) {
						continue // loop exit
					}
					if reachableBlocks(g, su.Index, nil, blocked)[header.Index] {
						bad = "in " + FuncName(g) + " (" + c.Pos(mu.Pos()) + ") an iteration can reach the next one without storing its entry (a `continue` in front of the insertion)"
					}
				}
			})
		}
		switch {
		case nUpd == 0:
			r.undecided("%s: %s — %s (the construct this rule is anchored on was not found: no verdict)", key, what, "no insertion into the map found")
		case bad != "":
			r.fail(key, c.Pos(s.lk.Pos()), FuncName(fn), what, bad+": the unchecked lookup here yields nil for that element and the dereference panics in a pool goroutine")
		default:
			r.ok(key, c.Pos(s.lk.Pos()), FuncName(fn), what, fmt.Sprintf("%d insertion site(s); no path round the loop avoids the insertion", nUpd))
		}
	}
	r.Instances = len(sites)
	return r
}

func firstUse(v ssa.Value) ssa.Instruction {
	var first ssa.Instruction
	for _, ref := range *v.Referrers() {
		if first == nil || (ref.Block() == first.Block() && instrIndex(ref) < instrIndex(first)) {
			first = ref
		}
	}
	if first == nil {
		return v.(ssa.Instruction)
	}
	return first
}

func init() {
	registerRule("F21", "clock-rate consistency: a decode/presentation time of a track (a value computed from a pts/dts source) is converted to wall time, or rescaled, with that track's ClockRate (or a clockRate parameter) — never with another rate such as the audio sample rate", ruleF21)
}

func isClockRateValue(v ssa.Value) bool {
	v = stripConv(v)
	switch x := v.(type) {
	case *ssa.Parameter:
		return strings.EqualFold(x.Name(), "clockRate") || strings.EqualFold(x.Name(), "timeScale")
	case *ssa.FreeVar:
		return strings.EqualFold(x.Name(), "clockRate")
	}
	if f, _ := loadedField(v); f != nil {
		return strings.EqualFold(f.Name(), "ClockRate") || strings.HasSuffix(f.Name(), "ClockRate") || strings.EqualFold(f.Name(), "TimeScale") || strings.HasSuffix(f.Name(), "TimeScale")
	}
	if fv, ok := v.(*ssa.Field); ok {
		if f, _ := fieldOfValue(fv); f != nil {
			return strings.EqualFold(f.Name(), "ClockRate")
		}
	}
	return false
}

func ruleF21(c *Ctx) *RuleResult {
	r := &RuleResult{Floor: 15, FloorWhat: "conversions of track timestamps"}
	t2d := c.Func("", "timestampToDuration")
	mad := c.Func("", "multiplyAndDivide")
	if t2d == nil || mad == nil {
		r.undecided("timestampToDuration / multiplyAndDivide not found")
		return r
	}
	n := 0
	per := map[*ssa.Function]int{}
	for _, fn := range c.Funcs {
		if !InRootPkg(fn) {
			continue
		}
		allInstrs(fn, func(in ssa.Instruction) {
			call, ok := in.(*ssa.Call)
			if !ok {
				return
			}
			var x, rate ssa.Value
			switch call.Call.StaticCallee() {
			case t2d:
				x, rate = call.Call.Args[0], call.Call.Args[1]
			case mad:
				x, rate = call.Call.Args[0], call.Call.Args[2]
			default:
				return
			}
			got := map[string]bool{}
			tsSlice(x, map[ssa.Value]bool{}, got)
			if !got["dts"] && !got["pts"] {
				return
			}
			n++
			per[fn]++
			key := fmt.Sprintf("%s|%s#%d", FuncName(fn), call.Call.StaticCallee().Name(), per[fn])
			what := "a track timestamp is converted with the track's clock rate"
			if isClockRateValue(rate) {
				r.ok(key, c.Pos(call.Pos()), FuncName(fn), what, "rate is "+describeVal(stripConv(rate)))
			} else {
				r.fail(key, c.Pos(call.Pos()), FuncName(fn), what,
					"the rate is "+describeVal(stripConv(rate))+", not a ClockRate: whenever the two rates differ (a 90 kHz track clock with a 44.1/48 kHz sample rate) the wall-clock time of every unit after the first of a call is off by their ratio, and so is the PROGRAM-DATE-TIME of a segment that starts there")
			}
		})
	}
	r.Instances = n
	return r
}

func init() {
	registerRule("F22", "rescaling direction: where a stored time of a time converter (a field of the receiver) is rescaled with multiplyAndDivide(x, to, from), `from` is the rate stored next to it (a field of the same receiver) and `to` is the caller's clock rate (a parameter)", ruleF22)
}

func ruleF22(c *Ctx) *RuleResult {
	r := &RuleResult{Floor: 2, FloorWhat: "rescalings of stored times"}
	mad := c.Func("", "multiplyAndDivide")
	if mad == nil {
		r.undecided("multiplyAndDivide not found")
		return r
	}
	n := 0
	per := map[*ssa.Function]int{}
	for _, fn := range c.Funcs {
		if !InRootPkg(fn) || fn.Signature.Recv() == nil || len(fn.Params) == 0 {
			continue
		}
		recv := fn.Params[0]
		allInstrs(fn, func(in ssa.Instruction) {
			call, ok := in.(*ssa.Call)
			if !ok || call.Call.StaticCallee() != mad {
				return
			}
			xf, xb := loadedField(stripConv(call.Call.Args[0]))
			if xf == nil || xb != ssa.Value(recv) {
				return
			}
			n++
			per[fn]++
			key := fmt.Sprintf("%s|rescale %s#%d", FuncName(fn), xf.Name(), per[fn])
			what := "the stored time " + c.fieldName(xf) + " is rescaled from the rate stored with it to the caller's rate"
			to, from := stripConv(call.Call.Args[1]), stripConv(call.Call.Args[2])
			ff, fb := loadedField(from)
			_, toIsParam := to.(*ssa.Parameter)
			switch {
			case ff == nil || fb != ssa.Value(recv):
				r.fail(key, c.Pos(call.Pos()), FuncName(fn), what, "the divisor ("+describeVal(from)+") is not a rate stored in the same converter: the stored time is in the leading track's clock, so for a track with another clock rate (44.1 kHz audio next to 90 kHz video) the absolute time drifts by the ratio of the two rates")
			case !toIsParam:
				r.fail(key, c.Pos(call.Pos()), FuncName(fn), what, "the multiplier ("+describeVal(to)+") is not the caller's clock rate")
			default:
				r.ok(key, c.Pos(call.Pos()), FuncName(fn), what, "x * "+to.Name()+" / "+c.fieldName(ff))
			}
		})
	}
	r.Instances = n
	return r
}

func init() {
	registerRule("T7e", "descriptors are taken when a reader is handed out: no Read method of the storage package can reach os.Open/OpenFile (a reader obtained before Remove keeps working, as in the RAM backend), and every Reader() of a disk-backed type reaches os.Open before it returns", ruleT7e)
}

func ruleT7e(c *Ctx) *RuleResult {
	r := &RuleResult{Floor: 3, FloorWhat: "Read / Reader methods of the storage package"}
	isOpen := func(f *ssa.Function) bool {
		return isFuncNamed(f, "os", "Open") || isFuncNamed(f, "os", "OpenFile") || isFuncNamed(f, "os", "Create")
	}
	stopOutside := func(f *ssa.Function) bool { return !InLib(f) && !isOpen(f) }
	n := 0
	for _, fn := range c.Funcs {
		if fn.Pkg == nil || !strings.HasSuffix(fn.Pkg.Pkg.Path(), "/pkg/storage") || fn.Signature.Recv() == nil {
			continue
		}
		switch fn.Name() {
		case "Read":
			n++
			key := FuncName(fn) + "|no-open-in-read"
			what := "Read does not open files (the descriptor was taken when the reader was created)"
			var hit *ssa.Function
			for g := range c.reach([]*ssa.Function{fn}, stopOutside) {
				if isOpen(g) {
					hit = g
				}
			}
			if hit == nil {
				r.ok(key, c.Pos(fn.Pos()), FuncName(fn), what, "no os.Open reachable")
			} else {
				r.fail(key, c.Pos(fn.Pos()), FuncName(fn), what, "os."+hit.Name()+" is reachable from Read: a reader obtained before File.Remove() fails with ENOENT at its first Read, while the RAM backend keeps serving it", c.reachPath([]*ssa.Function{fn}, hit)...)
			}
		case "Reader":
			rn := namedOf(fn.Signature.Recv().Type())
			if rn == nil || !strings.Contains(strings.ToLower(rn.Obj().Name()), "disk") {
				continue
			}
			n++
			key := FuncName(fn) + "|opens"
			what := "Reader() of a disk-backed object opens the file itself"
			found := false
			for g := range c.reach([]*ssa.Function{fn}, stopOutside) {
				if isOpen(g) {
					found = true
				}
			}
			if found {
				r.ok(key, c.Pos(fn.Pos()), FuncName(fn), what, "os.Open reachable from Reader()")
			} else {
				r.fail(key, c.Pos(fn.Pos()), FuncName(fn), what, "no os.Open reachable from Reader(): the file is opened later (or never), so a reader handed out before Remove() cannot be used afterwards")
			}
		}
	}
	r.Instances = n
	return r
}

// variadicArgs returns the values packed into the slice that go/ssa builds for a variadic call
// (`new [n]any; &t[k] = make interface <- x; slice t[:]`), in order, with the interface conversion removed.
func variadicArgs(v ssa.Value) []ssa.Value {
	sl, ok := v.(*ssa.Slice)
	if !ok {
		return nil
	}
	al, ok := sl.X.(*ssa.Alloc)
	if !ok {
		return nil
	}
	byIdx := map[int64]ssa.Value{}
	for _, ref := range *al.Referrers() {
		ia, ok := ref.(*ssa.IndexAddr)
		if !ok {
			continue
		}
		k, ok := constInt(ia.Index)
		if !ok {
			continue
		}
		for _, r2 := range *ia.Referrers() {
			if st, ok := r2.(*ssa.Store); ok && st.Addr == ia {
				val := st.Val
				if mi, ok := val.(*ssa.MakeInterface); ok {
					val = mi.X
				}
				byIdx[k] = val
			}
		}
	}
	var out []ssa.Value
	for k := int64(0); k < int64(len(byIdx)); k++ {
		if x, ok := byIdx[k]; ok {
			out = append(out, x)
		}
	}
	return out
}
