package main

import (
	"fmt"
	"go/constant"
	"go/token"
	"go/types"
	"strings"

	"golang.org/x/tools/go/ssa"
)

func init() {
	registerRule("F1", "telescoping: the instant that closes a segment/part is, as the same SSA value, the start of the one that replaces it, and is passed unchanged to every stream; the wall-clock time of a segment is the one supplied with its first unit; the first part of a segment starts at the segment's start", ruleF1)
	registerRule("F2", "flag flow: the force argument of a rotation marks the new segment as forced, the init file is regenerated exactly when it is missing or the published segment was forced, a fragment's sequence number is its part id", ruleF2)
	registerRule("F3", "query filtering: in the fMP4 playlist generator the raw query only feeds filterOutHLSParams; every URI uses the filtered value", ruleF3)
	registerRule("F4", "query preserved: every non-constant URI a muxer playlist lists is `base` or `base + \"?\" + query`, selected by `query != \"\"`", ruleF4)
	registerRule("F5", "look-ahead hand-off: the sample swapped out of the one-sample look-ahead reaches writeSample exactly once on every success path (except when there is none yet or the leading track has not started); a finalized part drains each track's list once and always marshals", ruleF5)
	registerRule("F6", "payload immutability: writer-side library code never stores into, copies into or appends onto a byte slice it did not allocate", ruleF6)
	registerRule("F7", "client flow: request URLs are the playlist URL or resolved against it; _HLS_skip is requested iff CAN-SKIP-UNTIL was advertised; between two segment downloads every path throttles on the queue and re-fetches the playlist; next id is current+1; the end-of-stream sentinel is pushed only after the last ENDLIST segment", ruleF7)
	registerRule("F8", "leading time: every timestamp handed to a track processor is the result of the leading converter's convert(); the leading converter is installed only by the leading stream", ruleF8)
	registerRule("N1", "Low-Latency numbering: the number of gap segments prefilled, the initial segment id and the minimum SegmentCount are the same constant", ruleN1)
	registerRule("N2", "spec factors: PART-HOLD-BACK = part target x a/b with a/b >= 2; CAN-SKIP-UNTIL = target duration x k seconds with k >= 6", ruleN2)
	registerRule("N3", "documented constants: fMP4 start offset 10 s; live start distance 3, maximum distance 5, throttle bound 1, MPEG-TS clock 90000 on both sides", ruleN3)
}

func storesToField(c *Ctx, fn *ssa.Function, f *types.Var) []*ssa.Store {
	var out []*ssa.Store
	allInstrs(fn, func(in ssa.Instruction) {
		if st, ok := in.(*ssa.Store); ok {
			if ff, _ := fieldOfAddr(st.Addr); ff == f {
				out = append(out, st)
			}
		}
	})
	return out
}

func paramNamed(fn *ssa.Function, name string) *ssa.Parameter {
	for _, p := range fn.Params {
		if p.Name() == name {
			return p
		}
	}
	return nil
}

// durationParam / timeParam: the parameter of the given type (by position among parameters of that type).
func paramOfType(fn *ssa.Function, pkg, name string, nth int) *ssa.Parameter {
	k := 0
	for _, p := range fn.Params {
		if typeIs(p.Type(), pkg, name) {
			if _, isPtr := p.Type().(*types.Pointer); isPtr {
				continue
			}
			if k == nth {
				return p
			}
			k++
		}
	}
	return nil
}

func ruleF1(c *Ctx) *RuleResult {
	r := &RuleResult{Floor: 10, FloorWhat: "time hand-offs"}
	rs := c.Method("", "muxerStream", "rotateSegments")
	rp := c.Method("", "muxerStream", "rotateParts")
	cf := c.Method("", "muxerStream", "createFirstSegment")
	if rs == nil || rp == nil || cf == nil {
		r.undecided("muxerStream.rotateSegments / rotateParts / createFirstSegment not found")
		return r
	}
	check := func(fn *ssa.Function, label string, p *ssa.Parameter, isSink func(in ssa.Instruction) (ssa.Value, bool), what string, min int) {
		n := 0
		allInstrs(fn, func(in ssa.Instruction) {
			v, ok := isSink(in)
			if !ok {
				return
			}
			n++
			key := fmt.Sprintf("%s|%s#%d", FuncName(fn), label, n)
			if v == p {
				r.ok(key, c.Pos(posOf(in)), FuncName(fn), what, "the parameter "+p.Name()+" itself")
			} else {
				r.fail(key, c.Pos(posOf(in)), FuncName(fn), what, "value is "+v.String()+", not the parameter "+p.Name()+": durations no longer telescope")
			}
		})
		if n < min {
			// the construction may live in a helper of the stream that receives the parameter unchanged
			// (`openNextSegment(nextDTS, nextNTP, force)`): count the sinks there, against the helper's own parameter
			viaHelper := 0
			helperName := ""
			allInstrs(fn, func(in ssa.Instruction) {
				call, ok := in.(*ssa.Call)
				if !ok {
					return
				}
				g := call.Call.StaticCallee()
				if g == nil || g == fn || !InRootPkg(g) || g.Blocks == nil || g.Signature.Recv() == nil || !typeIs(g.Signature.Recv().Type(), modPath, "muxerStream") {
					return
				}
				for i, a := range call.Call.Args {
					if a != ssa.Value(p) || i >= len(g.Params) {
						continue
					}
					gp := g.Params[i]
					allInstrs(g, func(x ssa.Instruction) {
						if v, ok := isSink(x); ok {
							if v == ssa.Value(gp) {
								viaHelper++
								helperName = FuncName(g)
							} else {
								viaHelper = -1000
							}
						}
					})
				}
			})
			if n+viaHelper >= min {
				r.ok(fmt.Sprintf("%s|%s|via-helper", FuncName(fn), label), c.Pos(fn.Pos()), FuncName(fn), what, "the parameter is handed unchanged to "+helperName+", where it reaches the sink")
			} else {
				r.fail(fmt.Sprintf("%s|%s|missing", FuncName(fn), label), c.Pos(fn.Pos()), FuncName(fn), what, fmt.Sprintf("expected at least %d such site(s), found %d", min, n))
			}
		}
	}
	finalizeArg := func(recvType string) func(in ssa.Instruction) (ssa.Value, bool) {
		return func(in ssa.Instruction) (ssa.Value, bool) {
			ci, ok := in.(ssa.CallInstruction)
			if !ok {
				return nil, false
			}
			cc := ci.Common()
			if cc.IsInvoke() && cc.Method.Name() == "finalize" && recvType == "muxerSegment" {
				return cc.Args[0], true
			}
			if f := cc.StaticCallee(); f != nil && f.Name() == "finalize" && f.Signature.Recv() != nil && typeIs(f.Signature.Recv().Type(), modPath, recvType) {
				return cc.Args[1], true
			}
			return nil, false
		}
	}
	startStore := func(typ, field string) func(in ssa.Instruction) (ssa.Value, bool) {
		f := c.Field("", typ, field)
		return func(in ssa.Instruction) (ssa.Value, bool) {
			if st, ok := in.(*ssa.Store); ok && f != nil {
				if ff, _ := fieldOfAddr(st.Addr); ff == f {
					return st.Val, true
				}
			}
			return nil, false
		}
	}
	// rotateSegments(nextDTS, nextNTP, force)
	if d, t := paramOfType(rs, "time", "Duration", 0), paramOfType(rs, "time", "Time", 0); d != nil && t != nil {
		check(rs, "finalize-end", d, finalizeArg("muxerSegment"), "the closing segment ends at the instant given to the rotation", 1)
		check(rs, "fmp4-start", d, startStore("muxerSegmentFMP4", "startDTS"), "the new fMP4 segment starts at the instant given to the rotation", 1)
		check(rs, "mpegts-start", d, startStore("muxerSegmentMPEGTS", "startDTS"), "the new MPEG-TS segment starts at the instant given to the rotation", 1)
		check(rs, "fmp4-ntp", t, startStore("muxerSegmentFMP4", "startNTP"), "the new fMP4 segment's date-time is the wall-clock time given to the rotation", 1)
		check(rs, "mpegts-ntp", t, startStore("muxerSegmentMPEGTS", "startNTP"), "the new MPEG-TS segment's date-time is the wall-clock time given to the rotation", 1)
		// nested part rotation gets the same instant
		n := 0
		allInstrs(rs, func(in ssa.Instruction) {
			if call, ok := in.(*ssa.Call); ok && call.Call.StaticCallee() == rp {
				n++
				key := fmt.Sprintf("%s|nested-part-rotation#%d", FuncName(rs), n)
				if call.Call.Args[1] == d {
					r.ok(key, c.Pos(call.Pos()), FuncName(rs), "the last part of the closing segment ends at the same instant", "same parameter")
				} else {
					r.fail(key, c.Pos(call.Pos()), FuncName(rs), "the last part of the closing segment ends at the same instant", "passes "+call.Call.Args[1].String())
				}
			}
		})
	} else {
		r.undecided("rotateSegments: Duration/Time parameters not found")
	}
	if d := paramOfType(rp, "time", "Duration", 0); d != nil {
		check(rp, "finalize-end", d, finalizeArg("muxerPart"), "the closing part ends at the instant given to the rotation", 1)
		check(rp, "part-start", d, startStore("muxerPart", "startDTS"), "the new part starts at the instant given to the rotation", 1)
	}
	if d, t := paramOfType(cf, "time", "Duration", 0), paramOfType(cf, "time", "Time", 0); d != nil && t != nil {
		check(cf, "fmp4-start", d, startStore("muxerSegmentFMP4", "startDTS"), "the first fMP4 segment starts at the first unit's DTS", 1)
		check(cf, "mpegts-start", d, startStore("muxerSegmentMPEGTS", "startDTS"), "the first MPEG-TS segment starts at the first unit's DTS", 1)
		check(cf, "fmp4-ntp", t, startStore("muxerSegmentFMP4", "startNTP"), "the first fMP4 segment's date-time is the first unit's wall-clock time", 1)
		check(cf, "mpegts-ntp", t, startStore("muxerSegmentMPEGTS", "startNTP"), "the first MPEG-TS segment's date-time is the first unit's wall-clock time", 1)
	}
	// first part of a segment starts at the segment's startDTS (rotateSegments, createFirstSegment)
	segStart := c.Field("", "muxerSegmentFMP4", "startDTS")
	partStart := c.Field("", "muxerPart", "startDTS")
	for _, fn := range []*ssa.Function{rs, cf} {
		for i, st := range storesToField(c, fn, partStart) {
			key := fmt.Sprintf("%s|first-part-start#%d", FuncName(fn), i+1)
			if f, _ := loadedField(st.Val); f == segStart {
				r.ok(key, c.Pos(st.Pos()), FuncName(fn), "the first part of a segment starts at the segment's start", "seg.startDTS")
			} else {
				r.fail(key, c.Pos(st.Pos()), FuncName(fn), "the first part of a segment starts at the segment's start", "assigned "+st.Val.String())
			}
		}
	}
	// thin wrappers of the three stream functions that forward their own time parameters count as the function itself
	isRot := map[*ssa.Function]bool{rs: true, rp: true, cf: true}
	for _, g := range c.Funcs {
		if !InRootPkg(g) || isRot[g] || g.Signature.Recv() == nil || !typeIs(g.Signature.Recv().Type(), modPath, "muxerStream") {
			continue
		}
		calls, forwards := 0, true
		allInstrs(g, func(in ssa.Instruction) {
			call, ok := in.(*ssa.Call)
			if !ok {
				return
			}
			if h := call.Call.StaticCallee(); h == rs || h == rp || h == cf {
				calls++
				for _, a := range call.Call.Args[1:] {
					if typeIs(a.Type(), "time", "Duration") || typeIs(a.Type(), "time", "Time") {
						if _, isParam := a.(*ssa.Parameter); !isParam {
							forwards = false
						}
					}
				}
			} else if h != nil && InRootPkg(h) {
				forwards = false // does more than forwarding
			}
		})
		if calls == 1 && forwards && len(g.Blocks) <= 2 {
			isRot[g] = true
		}
	}
	// Muxer.rotate*Inner pass their own parameters to every stream
	for _, name := range []string{"rotateSegmentsInner", "rotatePartsInner", "createFirstSegment"} {
		fn := c.Method("", "Muxer", name)
		if fn == nil && strings.HasSuffix(name, "Inner") {
			fn = c.muxerFanOut(strings.TrimSuffix(name, "Inner"))
		}
		if fn == nil {
			r.undecided("Muxer.%s not found", name)
			continue
		}
		n := 0
		allInstrs(fn, func(in ssa.Instruction) {
			call, ok := in.(*ssa.Call)
			if !ok {
				return
			}
			g := call.Call.StaticCallee()
			if !isRot[g] {
				return
			}
			n++
			key := fmt.Sprintf("%s|same-instant#%d", FuncName(fn), n)
			okAll := true
			bad := ""
			for i, a := range call.Call.Args[1:] {
				if typeIs(a.Type(), "time", "Duration") || typeIs(a.Type(), "time", "Time") {
					if _, isParam := a.(*ssa.Parameter); !isParam {
						okAll = false
						bad = fmt.Sprintf("argument %d is %s", i+1, a.String())
					}
				}
			}
			if okAll {
				r.ok(key, c.Pos(call.Pos()), FuncName(fn), "every stream is rotated with the caller's unchanged instant", "parameters forwarded")
			} else {
				r.fail(key, c.Pos(call.Pos()), FuncName(fn), "every stream is rotated with the caller's unchanged instant", bad+": streams of one muxer are cut at different instants")
			}
		})
		// every stream is visited: a range over m.streams for non-leading ones + the leading one
		loopCall := false
		allInstrs(fn, func(in ssa.Instruction) {
			if call, ok := in.(*ssa.Call); ok {
				if g := call.Call.StaticCallee(); isRot[g] && inLoop(in) {
					loopCall = true
				}
			}
		})
		if n == 0 {
			r.undecided("F1: %s calls none of the per-stream rotation functions directly: form not known to the rule", FuncName(fn))
		} else if n < 2 && !(n == 1 && loopCall) {
			r.fail(FuncName(fn)+"|all-streams", c.Pos(fn.Pos()), FuncName(fn), "the leading stream and every other stream are rotated", fmt.Sprintf("%d call site(s)", n))
		}
	}
	return r
}

// ---------------------------------------------------------------------------

func ruleF2(c *Ctx) *RuleResult {
	r := &RuleResult{Floor: 4, FloorWhat: "flag flows"}
	rs := c.Method("", "muxerStream", "rotateSegments")
	forced := c.Field("", "muxerSegmentFMP4", "fromForcedRotation")
	if rs == nil || forced == nil {
		r.undecided("rotateSegments / fromForcedRotation not found")
		return r
	}
	var forceP *ssa.Parameter
	for _, p := range rs.Params {
		if b, ok := p.Type().Underlying().(*types.Basic); ok && b.Kind() == types.Bool {
			forceP = p
		}
	}
	for i, st := range storesToField(c, rs, forced) {
		key := fmt.Sprintf("rotateSegments|forced-flag#%d", i+1)
		if st.Val == forceP {
			r.ok(key, c.Pos(st.Pos()), FuncName(rs), "the segment opened by a rotation records whether that rotation was forced by a parameter change", "fromForcedRotation: force")
		} else {
			r.fail(key, c.Pos(st.Pos()), FuncName(rs), "the segment opened by a rotation records whether that rotation was forced by a parameter change", "assigned "+st.Val.String()+": the init segment is not regenerated after the change")
		}
	}
	// Muxer.rotateSegments / Inner forward force
	for _, name := range []string{"rotateSegments", "rotateSegmentsInner"} {
		fn := c.Method("", "Muxer", name)
		if fn == nil && name == "rotateSegmentsInner" {
			fn = c.muxerFanOut("rotateSegments")
		}
		if fn == nil {
			continue
		}
		var fp *ssa.Parameter
		for _, p := range fn.Params {
			if b, ok := p.Type().Underlying().(*types.Basic); ok && b.Kind() == types.Bool {
				fp = p
			}
		}
		n := 0
		allInstrs(fn, func(in ssa.Instruction) {
			call, ok := in.(*ssa.Call)
			if !ok || call.Call.StaticCallee() == nil || !strings.HasPrefix(call.Call.StaticCallee().Name(), "rotateSegments") {
				return
			}
			n++
			key := fmt.Sprintf("%s|forwards-force#%d", FuncName(fn), n)
			last := call.Call.Args[len(call.Call.Args)-1]
			if last == fp {
				r.ok(key, c.Pos(call.Pos()), FuncName(fn), "the force flag is forwarded unchanged", "parameter")
			} else {
				r.fail(key, c.Pos(call.Pos()), FuncName(fn), "the force flag is forwarded unchanged", "passes "+last.String())
			}
		})
	}
	// fmp4WriteSample passes paramsChanged as force
	si := c.segmenter()
	if len(si.problems) == 0 {
		fn := si.writeSample
		allInstrs(fn, func(in ssa.Instruction) {
			call, ok := in.(*ssa.Call)
			if !ok || !call.Call.IsInvoke() || call.Call.Method.Name() != "rotateSegments" {
				return
			}
			last := call.Call.Args[len(call.Call.Args)-1]
			if last == fn.Params[si.pcIdx] {
				r.ok("fmp4WriteSample|force-is-paramsChanged", c.Pos(call.Pos()), FuncName(fn), "a rotation caused by a parameter change is marked forced", "force = paramsChanged")
			} else {
				r.fail("fmp4WriteSample|force-is-paramsChanged", c.Pos(call.Pos()), FuncName(fn), "a rotation caused by a parameter change is marked forced", "force argument is "+last.String()+": the init segment keeps the old parameters")
			}
		})
	}
	// init regeneration guard
	gen := c.Method("", "muxerStream", "generateAndCacheInitFile")
	present := c.Field("", "muxerStream", "initFilePresent")
	if gen != nil && present != nil {
		allInstrs(rs, func(in ssa.Instruction) {
			call, ok := in.(*ssa.Call)
			if !ok || call.Call.StaticCallee() != gen {
				return
			}
			var cs []condWant
			cs = append(cs, wantAll(ifsOn(rs, func(v ssa.Value) bool { f, _ := loadedField(v); return f == present }), false)...)
			cs = append(cs, wantAll(ifsOn(rs, func(v ssa.Value) bool {
				cc, ok := v.(*ssa.Call)
				return ok && cc.Call.IsInvoke() && cc.Call.Method.Name() == "isFromForcedRotation"
			}), true)...)
			// and it IS called when forced: the forced test's true edge leads to the call without further conditions
			reaches := false
			for _, cw := range cs {
				if cw.want {
					b := cw.ci.If.Block()
					idx := 0
					if !cw.ci.Pol {
						idx = 1
					}
					if b.Succs[idx] == call.Block() || b.Succs[idx].Dominates(call.Block()) {
						reaches = true
					}
				}
			}
			if len(cs) >= 2 && onlyIfAny(rs, call, cs) && reaches {
				r.ok("rotateSegments|init-regeneration", c.Pos(call.Pos()), FuncName(rs), "the init file is regenerated exactly when it is missing or the published segment came from a forced rotation", "guard: !initFilePresent || segment.isFromForcedRotation()")
			} else {
				r.fail("rotateSegments|init-regeneration", c.Pos(call.Pos()), FuncName(rs), "the init file is regenerated exactly when it is missing or the published segment came from a forced rotation", "guard not recognised or the forced branch does not lead to the regeneration")
			}
			// isFromForcedRotation is asked of the segment being published
		})
		for i, st := range storesToField(c, gen, present) {
			b, _ := constBool(st.Val)
			key := fmt.Sprintf("generateAndCacheInitFile|present#%d", i+1)
			if b {
				r.ok(key, c.Pos(st.Pos()), FuncName(gen), "initFilePresent is only set by the generator", "true")
			} else {
				r.fail(key, c.Pos(st.Pos()), FuncName(gen), "initFilePresent is only set by the generator", "stores false")
			}
		}
	}
	// fragment sequence number = part id
	if fin := c.Method("", "muxerPart", "finalize"); fin != nil {
		idF := c.Field("", "muxerPart", "id")
		found := false
		allInstrs(fin, func(in ssa.Instruction) {
			if st, ok := in.(*ssa.Store); ok {
				if f, _ := fieldOfAddr(st.Addr); f != nil && f.Name() == "SequenceNumber" {
					found = true
					if lf, _ := loadedField(stripConv(st.Val)); lf == idF {
						r.ok("muxerPart.finalize|sequence-number", c.Pos(st.Pos()), FuncName(fin), "a fragment's sequence number is its part id", "uint32(p.id)")
					} else {
						r.fail("muxerPart.finalize|sequence-number", c.Pos(st.Pos()), FuncName(fin), "a fragment's sequence number is its part id", "assigned "+st.Val.String())
					}
				}
			}
		})
		if !found {
			r.undecided("%s: %s — %s (the construct this rule is anchored on was not found: no verdict)", "muxerPart.finalize|sequence-number", "a fragment's sequence number is its part id", "no SequenceNumber assignment")
		}
	}
	return r
}

// ---------------------------------------------------------------------------

func ruleF3(c *Ctx) *RuleResult {
	r := &RuleResult{Floor: 1, FloorWhat: "uses of the raw query in the fMP4 generator"}
	fn := c.Method("", "muxerStream", "generateMediaPlaylistFMP4")
	filt := c.Func("", "filterOutHLSParams")
	if fn == nil || filt == nil {
		r.undecided("generateMediaPlaylistFMP4 / filterOutHLSParams not found")
		return r
	}
	var q *ssa.Parameter
	for _, p := range fn.Params {
		if isStringType(p.Type()) {
			q = p
		}
	}
	if q == nil {
		r.undecided("no string parameter in generateMediaPlaylistFMP4")
		return r
	}
	n := 0
	for _, ref := range *q.Referrers() {
		if _, dbg := ref.(*ssa.DebugRef); dbg {
			continue
		}
		n++
		key := fmt.Sprintf("generateMediaPlaylistFMP4|rawQuery-use#%d", n)
		if call, ok := ref.(*ssa.Call); ok && call.Call.StaticCallee() == filt {
			r.ok(key, c.Pos(posOf(ref)), FuncName(fn), "the raw query is only given to filterOutHLSParams", "filterOutHLSParams(rawQuery)")
		} else {
			r.fail(key, c.Pos(posOf(ref)), FuncName(fn), "the raw query is only given to filterOutHLSParams", "used by "+shortInstr(ref)+": _HLS_* directives are copied into a listed URI")
		}
	}
	// the filter removes every key with the _HLS_ prefix
	okPrefix := false
	allInstrs(filt, func(in ssa.Instruction) {
		if call, ok := in.(*ssa.Call); ok && isFuncNamed(call.Call.StaticCallee(), "strings", "HasPrefix") {
			if s, ok := constString(call.Call.Args[1]); ok && s == "_HLS_" {
				okPrefix = true
			}
		}
	})
	// what is encoded is the parsed query itself (keys are only deleted from it), so multi-valued parameters survive
	var parsed ssa.Value
	allInstrs(filt, func(in ssa.Instruction) {
		if call, ok := in.(*ssa.Call); ok && isFuncNamed(call.Call.StaticCallee(), "net/url", "ParseQuery") {
			for _, ref := range *call.Referrers() {
				if ex, ok := ref.(*ssa.Extract); ok && ex.Index == 0 {
					parsed = ex
				}
			}
		}
	})
	allInstrs(filt, func(in ssa.Instruction) {
		if call, ok := in.(*ssa.Call); ok && isMethodNamed(call.Call.StaticCallee(), "net/url", "Values", "Encode") {
			if parsed != nil && call.Call.Args[0] == parsed {
				r.ok("filterOutHLSParams|encodes-parsed-query", c.Pos(call.Pos()), FuncName(filt), "the re-encoded query is the parsed query minus the deleted keys", "Encode() on the ParseQuery result")
			} else {
				r.fail("filterOutHLSParams|encodes-parsed-query", c.Pos(call.Pos()), FuncName(filt), "the re-encoded query is the parsed query minus the deleted keys", "another url.Values is encoded: rebuilding the query (Get/Set) loses repeated parameters")
			}
		}
	})
	if okPrefix {
		r.ok("filterOutHLSParams|prefix", c.Pos(filt.Pos()), FuncName(filt), "the filter drops keys with the _HLS_ prefix", "HasPrefix(k, \"_HLS_\")")
	} else {
		r.undecided("%s: %s — %s (the construct this rule is anchored on was not found: no verdict)", "filterOutHLSParams|prefix", "the filter drops keys with the _HLS_ prefix", "prefix test not found")
	}
	r.Instances = n
	return r
}

func ruleF4(c *Ctx) *RuleResult {
	r := &RuleResult{Floor: 8, FloorWhat: "non-constant URI stores"}
	ro := c.roles()
	set := c.reachRole(ro.R)
	n := 0
	for _, fn := range c.Funcs {
		if !set[fn] || !InRootPkg(fn) {
			continue
		}
		cnt := 0
		allInstrs(fn, func(in ssa.Instruction) {
			st, ok := in.(*ssa.Store)
			if !ok {
				return
			}
			f, _ := fieldOfAddr(st.Addr)
			if f == nil || f.Name() != "URI" || f.Pkg() == nil || f.Pkg().Path() != modPath+"/pkg/playlist" {
				return
			}
			if _, isConst := constString(st.Val); isConst {
				return
			}
			cnt++
			n++
			key := fmt.Sprintf("%s|%s#%d", FuncName(fn), c.fieldName(f), cnt)
			what := "the listed URI carries the request's query string when there is one"
			if ok, why := hasQueryForm(st.Val); ok {
				r.ok(key, c.Pos(st.Pos()), FuncName(fn), what, why)
			} else {
				r.fail(key, c.Pos(st.Pos()), FuncName(fn), what, why+": a client that authenticates through the query string cannot fetch this URI")
			}
		})
	}
	r.Instances = n
	return r
}

// hasQueryForm: v is phi(base, base+"?"+q) guarded by q != "", or the cell equivalent.
func hasQueryForm(v ssa.Value) (bool, string) {
	var alts []ssa.Value
	switch x := v.(type) {
	case *ssa.Phi:
		alts = x.Edges
	case *ssa.Alloc:
		for _, ref := range *x.Referrers() {
			if st, ok := ref.(*ssa.Store); ok && st.Addr == x {
				alts = append(alts, st.Val)
			}
		}
	case *ssa.UnOp:
		if al, ok := x.X.(*ssa.Alloc); ok {
			return hasQueryForm(al)
		}
	case *ssa.Call:
		// a helper that appends the query: judged on its own returns (the guard `q != ""` is inside it)
		if g := x.Call.StaticCallee(); g != nil {
			if _, qi, ok := queryAppender(g); ok && isStringType(x.Call.Args[qi].Type()) {
				for _, b := range g.Blocks {
					if ret, isRet := b.Instrs[len(b.Instrs)-1].(*ssa.Return); isRet && b != g.Recover {
						v := retVal(ret, 0)
						if phi, isPhi := v.(*ssa.Phi); isPhi {
							alts = append(alts, phi.Edges...)
						} else {
							alts = append(alts, v)
						}
					}
				}
			}
		}
	}
	for _, a := range alts {
		bo, ok := a.(*ssa.BinOp)
		if !ok || bo.Op != token.ADD {
			continue
		}
		ls := flatten(bo, 0)
		if len(ls) >= 3 && ls[1].kind == "" && ls[1].text == "?" && ls[2].kind != "" && isStringType(ls[2].val.Type()) {
			q := ls[2].val
			// guarded by q != ""
			fn := bo.Parent()
			conds := ifsOnV(fn, func(c ssa.Value) bool {
				cmp, ok := c.(*ssa.BinOp)
				if !ok || cmp.Op != token.NEQ || cmp.X != q {
					return false
				}
				s, isS := constString(cmp.Y)
				return isS && s == ""
			})
			if len(conds) > 0 && onlyIf(fn, bo, conds, true) {
				return true, "base + \"?\" + query when query != \"\""
			}
			return false, "the query suffix is not selected by `query != \"\"`"
		}
	}
	return false, "the stored value has no `+ \"?\" + query` alternative"
}

// ---------------------------------------------------------------------------

func ruleF5(c *Ctx) *RuleResult {
	r := &RuleResult{Floor: 5, FloorWhat: "hand-off obligations"}
	si := c.segmenter()
	for _, p := range si.problems {
		r.undecided("%s", p)
	}
	if len(si.problems) > 0 {
		return r
	}
	fn := si.writeSample
	next := c.Field("", "muxerTrack", "fmp4NextSample")
	ws := c.Method("", "muxerPart", "writeSample")
	slots, _ := c.slotFields()
	if next == nil || ws == nil {
		r.undecided("fmp4NextSample / muxerPart.writeSample not found")
		return r
	}
	// the swap: a load of fmp4NextSample followed by a store of the new sample parameter
	var sampleP *ssa.Parameter
	for _, p := range fn.Params {
		if _, ok := p.Type().(*types.Pointer); ok && typeIs(p.Type(), modPath, "fmp4AugmentedSample") {
			sampleP = p
		}
	}
	var swapStore *ssa.Store
	for _, st := range storesToField(c, fn, next) {
		if st.Val == sampleP {
			swapStore = st
		}
	}
	var old ssa.Value
	if swapStore != nil {
		allInstrs(fn, func(in ssa.Instruction) {
			if u, ok := in.(*ssa.UnOp); ok && u.Op == token.MUL {
				if f, _ := fieldOfAddr(u.X); f == next && instrDominates(in, swapStore) && old == nil {
					old = u
				}
			}
		})
	}
	if swapStore == nil || old == nil {
		r.undecided("%s: %s — %s (the construct this rule is anchored on was not found: no verdict)", "fmp4WriteSample|swap", "the new sample replaces the look-ahead sample, which is taken out first", "swap `sample, next = next, sample` not found")
		return r
	}
	r.ok("fmp4WriteSample|swap", c.Pos(swapStore.Pos()), FuncName(fn), "the new sample replaces the look-ahead sample, which is taken out first", "old = load, store of the parameter")
	var calls []*ssa.Call
	allInstrs(fn, func(in ssa.Instruction) {
		if call, ok := in.(*ssa.Call); ok && call.Call.StaticCallee() == ws {
			calls = append(calls, call)
		}
	})
	if len(calls) == 1 && !inLoop(calls[0]) && calls[0].Call.Args[2] == old {
		r.ok("fmp4WriteSample|single-write", c.Pos(calls[0].Pos()), FuncName(fn), "writeSample is called once per invocation, outside any loop, with the swapped-out sample", "1 call site, argument is the old look-ahead")
	} else {
		why := fmt.Sprintf("%d call sites", len(calls))
		if len(calls) == 1 {
			if inLoop(calls[0]) {
				why = "the call is inside a loop"
			} else {
				why = "the argument is " + calls[0].Call.Args[2].String() + ", not the swapped-out sample"
			}
		}
		r.fail("fmp4WriteSample|single-write", c.Pos(fn.Pos()), FuncName(fn), "writeSample is called once per invocation, outside any loop, with the swapped-out sample", why+": a unit is lost, duplicated or written before its duration is known")
		return r
	}
	// every success return after the swap passed writeSample, unless old == nil or the open segment slot is empty
	allowed := wantAll(ifsOn(fn, func(v ssa.Value) bool {
		bo, ok := v.(*ssa.BinOp)
		if !ok || bo.Op != token.EQL {
			return false
		}
		k, isNil := bo.Y.(*ssa.Const)
		if !isNil || !k.IsNil() {
			return false
		}
		if bo.X == old {
			return true
		}
		f, _ := loadedField(bo.X)
		return f != nil && slots[f]
	}), true)
	nret := 0
	allInstrs(fn, func(in ssa.Instruction) {
		ret, ok := in.(*ssa.Return)
		if !ok || !isSuccessReturn(ret) || !instrReaches(swapStore, ret) {
			return
		}
		// reachable without passing writeSample?
		skip := pathAvoidingRaw(fn, swapStore, func(x ssa.Instruction) bool { return x == calls[0] }, func(x ssa.Instruction) bool { return x == ret })
		if !skip {
			return
		}
		nret++
		key := fmt.Sprintf("fmp4WriteSample|skip-return#%d", nret)
		if onlyIfAny(fn, ret, allowed) {
			r.ok(key, c.Pos(posOf(ret)), FuncName(fn), "a success return that skips writeSample happens only when there is no look-ahead sample yet or the stream has no open segment", "control dependent on `old == nil` / `open segment == nil`")
		} else {
			r.fail(key, c.Pos(posOf(ret)), FuncName(fn), "a success return that skips writeSample happens only when there is no look-ahead sample yet or the stream has no open segment", "the swapped-out unit is dropped silently on this path")
		}
	})
	// muxerPart.finalize
	if fin := c.Method("", "muxerPart", "finalize"); fin != nil {
		samples := c.Field("", "muxerTrack", "fmp4Samples")
		var resets []*ssa.Store
		for _, st := range storesToField(c, fin, samples) {
			if k, ok := st.Val.(*ssa.Const); ok && k.IsNil() {
				resets = append(resets, st)
			}
		}
		// the append of the PartTrack and the reset are in the same block
		paired := false
		for _, rs := range resets {
			for _, x := range rs.Block().Instrs {
				if call, ok := x.(*ssa.Call); ok {
					if b, ok := call.Call.Value.(*ssa.Builtin); ok && b.Name() == "append" {
						paired = true
					}
				}
			}
		}
		if paired {
			r.ok("muxerPart.finalize|drain-once", c.Pos(resets[0].Pos()), FuncName(fin), "a track's sample list is moved into the part and reset to nil on the same path", "append + reset in one block")
		} else {
			r.fail("muxerPart.finalize|drain-once", c.Pos(fin.Pos()), FuncName(fin), "a track's sample list is moved into the part and reset to nil on the same path", "no reset paired with the append: samples are written twice")
		}
		var marshal ssa.Instruction
		allInstrs(fin, func(in ssa.Instruction) {
			if call, ok := in.(*ssa.Call); ok && call.Call.StaticCallee() != nil && call.Call.StaticCallee().Name() == "Marshal" {
				marshal = in
			}
		})
		okM := marshal != nil
		if okM {
			allInstrs(fin, func(in ssa.Instruction) {
				if ret, ok := in.(*ssa.Return); ok && isSuccessReturn(ret) && !instrDominates(marshal, ret) {
					okM = false
				}
			})
		}
		if okM {
			r.ok("muxerPart.finalize|marshals", c.Pos(marshal.Pos()), FuncName(fin), "every success return of finalize follows part.Marshal", "dominates")
		} else {
			r.fail("muxerPart.finalize|marshals", c.Pos(fin.Pos()), FuncName(fin), "every success return of finalize follows part.Marshal", "a success return is reachable without marshalling the fragment")
		}
	}
	return r
}

// ---------------------------------------------------------------------------

func ruleF6(c *Ctx) *RuleResult {
	r := &RuleResult{Floor: 10, FloorWhat: "byte-slice parameters in writer-side code"}
	ro := c.roles()
	set := c.reachRole(ro.W)
	n := 0
	local := func(v ssa.Value) bool {
		root := rootOf(v)
		switch x := root.(type) {
		case *ssa.Alloc:
			return true
		case *ssa.MakeSlice:
			return true
		case *ssa.Slice:
			_, ok := rootOf(x.X).(*ssa.Alloc)
			return ok
		}
		return false
	}
	for _, fn := range c.Funcs {
		if !set[fn] || !InLib(fn) {
			continue
		}
		if fn.Name() == "Read" && fn.Signature.Recv() != nil {
			continue // io.Reader implementations fill the caller's buffer by contract
		}
		for _, p := range fn.Params {
			if isByteSlice(p.Type()) || isByteSliceSlice(p.Type()) {
				n++
			}
		}
		cnt := 0
		allInstrs(fn, func(in ssa.Instruction) {
			switch x := in.(type) {
			case *ssa.Store:
				ia, ok := x.Addr.(*ssa.IndexAddr)
				if !ok {
					return
				}
				t := ia.X.Type()
				if !(isByteSlice(t) || isByteSliceSlice(t)) || local(ia.X) {
					return
				}
				cnt++
				r.fail(fmt.Sprintf("%s|store#%d", FuncName(fn), cnt), c.Pos(x.Pos()), FuncName(fn), "library code does not write into byte slices it did not allocate", "element store into "+accessPath(ia.X)+": the caller's payload is modified")
			case *ssa.Call:
				b, ok := x.Call.Value.(*ssa.Builtin)
				if !ok {
					return
				}
				if b.Name() == "copy" && isByteSlice(x.Call.Args[0].Type()) && !local(x.Call.Args[0]) {
					cnt++
					r.fail(fmt.Sprintf("%s|copy#%d", FuncName(fn), cnt), c.Pos(x.Pos()), FuncName(fn), "library code does not copy into byte slices it did not allocate", "copy into "+accessPath(x.Call.Args[0]))
				}
				if b.Name() == "append" && isByteSlice(x.Call.Args[0].Type()) && !local(x.Call.Args[0]) {
					if k, isC := x.Call.Args[0].(*ssa.Const); isC && k.IsNil() {
						return
					}
					cnt++
					r.fail(fmt.Sprintf("%s|append#%d", FuncName(fn), cnt), c.Pos(x.Pos()), FuncName(fn), "library code does not append onto byte slices it did not allocate", "append onto "+accessPath(x.Call.Args[0])+" may write into the caller's spare capacity")
				}
			}
		})
		if cnt == 0 {
			for _, p := range fn.Params {
				if isByteSlice(p.Type()) || isByteSliceSlice(p.Type()) {
					r.ok(fmt.Sprintf("%s|param %s", FuncName(fn), p.Name()), c.Pos(fn.Pos()), FuncName(fn), "no store, copy or append targets a byte slice received from outside", "no writing instruction on non-local byte slices in this function")
				}
			}
		}
	}
	r.Instances = n
	return r
}

func isByteSliceSlice(t types.Type) bool {
	s, ok := t.Underlying().(*types.Slice)
	return ok && isByteSlice(s.Elem())
}

// ---------------------------------------------------------------------------

func ruleF7(c *Ctx) *RuleResult {
	r := &RuleResult{Floor: 8, FloorWhat: "client flow obligations"}
	abs := c.Func("", "clientAbsoluteURL")
	// request URLs
	n := 0
	for _, fn := range c.clientFuncs() {
		allInstrs(fn, func(in ssa.Instruction) {
			call, ok := in.(*ssa.Call)
			if !ok || !isFuncNamed(call.Call.StaticCallee(), "net/http", "NewRequestWithContext") {
				return
			}
			n++
			key := fmt.Sprintf("%s|request-url#%d", FuncName(fn), n)
			u := call.Call.Args[2]
			sc, ok := u.(*ssa.Call)
			if !ok || !isMethodNamed(sc.Call.StaticCallee(), "net/url", "URL", "String") {
				r.fail(key, c.Pos(call.Pos()), FuncName(fn), "the request URL is the String() of a *url.URL", "URL argument is "+u.String())
				return
			}
			src := sc.Call.Args[0]
			switch x := src.(type) {
			case *ssa.Parameter:
				r.ok(key, c.Pos(call.Pos()), FuncName(fn), "the request URL is the playlist URL handed in by the caller", "parameter "+x.Name())
			case *ssa.Extract:
				if ac, ok := x.Tuple.(*ssa.Call); ok && ac.Call.StaticCallee() == abs {
					if f, _ := loadedField(ac.Call.Args[0]); f != nil && f.Name() == "playlistURL" {
						r.ok(key, c.Pos(call.Pos()), FuncName(fn), "the request URL is resolved against the playlist URL", "clientAbsoluteURL(d.playlistURL, uri)")
						return
					}
				}
				r.fail(key, c.Pos(call.Pos()), FuncName(fn), "the request URL is resolved against the playlist URL", "source is "+x.Tuple.String())
			default:
				r.fail(key, c.Pos(call.Pos()), FuncName(fn), "the request URL is the playlist URL or resolved against it", "source is "+src.String())
			}
		})
	}
	sd := "clientStreamDownloader"
	// _HLS_skip iff CAN-SKIP-UNTIL
	if rl := c.Method("", sd, "runLowLatency"); rl != nil {
		dl := c.Method("", sd, "downloadPlaylist")
		allInstrs(rl, func(in ssa.Instruction) {
			call, ok := in.(*ssa.Call)
			if !ok || call.Call.StaticCallee() != dl {
				return
			}
			if len(call.Call.Args) < 3 {
				r.undecided("F7: downloadPlaylist no longer takes the delta flag as its second parameter: form not known to the rule")
				return
			}
			arg := call.Call.Args[2]
			okArg := false
			if bo, ok := arg.(*ssa.BinOp); ok && bo.Op == token.NEQ {
				if f, _ := loadedField(bo.X); f != nil && f.Name() == "CanSkipUntil" {
					if k, ok := bo.Y.(*ssa.Const); ok && k.IsNil() {
						okArg = true
					}
				}
			}
			if okArg {
				r.ok("runLowLatency|delta-iff-advertised", c.Pos(call.Pos()), FuncName(rl), "a delta update is requested exactly when CAN-SKIP-UNTIL was advertised", "skipUntil = ServerControl.CanSkipUntil != nil")
			} else {
				r.fail("runLowLatency|delta-iff-advertised", c.Pos(call.Pos()), FuncName(rl), "a delta update is requested exactly when CAN-SKIP-UNTIL was advertised", "argument is "+arg.String())
			}
		})
	}
	// runTraditional: between two fillSegmentQueue calls every path passes waitUntilSizeIsBelow and downloadPlaylist
	if rt := c.Method("", sd, "runTraditional"); rt != nil {
		wait := c.Method("", "clientSegmentQueue", "waitUntilSizeIsBelow")
		dl := c.Method("", sd, "downloadPlaylist")
		ds := c.Method("", sd, "downloadSegment")
		// a download site: a call (in runTraditional) of a library function that reaches downloadSegment
		reachesDS := map[*ssa.Function]bool{}
		isFill := func(x ssa.Instruction) bool {
			g := staticCallee(x)
			if g == nil || ds == nil || !InRootPkg(g) {
				return false
			}
			if v, ok := reachesDS[g]; ok {
				return v
			}
			v := g == ds || c.reach([]*ssa.Function{g}, func(f *ssa.Function) bool { return !InRootPkg(f) })[ds]
			reachesDS[g] = v
			return v
		}
		var fills []ssa.Instruction
		if wait != nil && dl != nil && ds != nil {
			allInstrs(rt, func(in ssa.Instruction) {
				if isFill(in) {
					fills = append(fills, in)
				}
			})
		}
		for i, f := range fills {
			for _, must := range []struct {
				g    *ssa.Function
				name string
				why  string
			}{{wait, "throttle", "the downloader runs ahead of the processor without bound"}, {dl, "refetch", "the next segment is looked up in a stale playlist"}} {
				key := fmt.Sprintf("runTraditional|%s-between-downloads#%d", must.name, i+1)
				skip := pathAvoidingRaw(rt, f, func(x ssa.Instruction) bool { return staticCallee(x) == must.g }, isFill)
				if !skip {
					r.ok(key, c.Pos(f.Pos()), FuncName(rt), "between two segment downloads every path calls "+must.g.Name(), "no bypass")
				} else {
					r.fail(key, c.Pos(f.Pos()), FuncName(rt), "between two segment downloads every path calls "+must.g.Name(), "a path reaches the next download without it: "+must.why)
				}
			}
		}
		if len(fills) == 0 {
			r.undecided("%s: %s — %s (the construct this rule is anchored on was not found: no verdict)", "runTraditional|fill", "runTraditional downloads segments through fillSegmentQueue", "no call found")
		}
		// wait bound
		allInstrs(rt, func(in ssa.Instruction) {
			if call, ok := in.(*ssa.Call); ok && call.Call.StaticCallee() == wait {
				k, isK := constInt(call.Call.Args[2])
				if isK && k == 1 {
					r.ok("runTraditional|throttle-bound", c.Pos(call.Pos()), FuncName(rt), "the downloader waits until at most one downloaded segment is waiting", "waitUntilSizeIsBelow(ctx, 1)")
				} else {
					r.fail("runTraditional|throttle-bound", c.Pos(call.Pos()), FuncName(rt), "the downloader waits until at most one downloaded segment is waiting", "bound is "+call.Call.Args[2].String())
				}
				// a false result terminates
			}
		})
	}
	// fillSegmentQueue
	if fq := c.Method("", sd, "fillSegmentQueue"); fq != nil {
		byID := c.Func("", "findSegmentWithID")
		byInv := c.Func("", "findSegmentWithInvPosition")
		cur := c.Field("", sd, "curSegmentID")
		// the selection logic may sit in fillSegmentQueue or in helper methods of the same type that it calls
		fqSet := []*ssa.Function{fq}
		for i := 0; i < len(fqSet) && i < 8; i++ {
			allInstrs(fqSet[i], func(in ssa.Instruction) {
				if call, ok := in.(*ssa.Call); ok {
					g := call.Call.StaticCallee()
					if g != nil && g.Blocks != nil && InRootPkg(g) && g.Signature.Recv() != nil && namedOf(g.Signature.Recv().Type()) == namedOf(fq.Signature.Recv().Type()) && !strings.HasPrefix(g.Name(), "download") {
						fqSet = appendUnique(fqSet, g)
					}
				}
			})
		}
		allIn := func(f func(ssa.Instruction)) {
			for _, g := range fqSet {
				allInstrs(g, f)
			}
		}
		nID, nInv := 0, 0
		allIn(func(in ssa.Instruction) {
			call, ok := in.(*ssa.Call)
			if !ok {
				return
			}
			switch call.Call.StaticCallee() {
			case byID:
				nID++
				id := call.Call.Args[2]
				okID := false
				if add, ok := id.(*ssa.BinOp); ok && add.Op == token.ADD {
					if k, ok := constInt(add.Y); ok && k == 1 {
						if u, ok := add.X.(*ssa.UnOp); ok {
							if f, _ := loadedField(u.X); f == cur {
								okID = true
							}
						}
					}
				}
				if okID {
					r.ok("fillSegmentQueue|next-id", c.Pos(call.Pos()), FuncName(fq), "the next segment looked up is current id + 1", "*d.curSegmentID + 1")
				} else {
					r.fail("fillSegmentQueue|next-id", c.Pos(call.Pos()), FuncName(fq), "the next segment looked up is current id + 1", "id argument is "+id.String())
				}
			case byInv:
				nInv++
				k, isK := constInt(call.Call.Args[1])
				want, _ := c.rootConstInt("clientLiveInitialDistance")
				if isK && k == want {
					r.ok("fillSegmentQueue|live-start", c.Pos(call.Pos()), FuncName(fq), "a live stream starts clientLiveInitialDistance segments from the end", fmt.Sprint(k))
				} else {
					r.fail("fillSegmentQueue|live-start", c.Pos(call.Pos()), FuncName(fq), "a live stream starts clientLiveInitialDistance segments from the end", call.Call.Args[1].String())
				}
			}
		})
		if nID == 0 {
			r.undecided("F7: no call of findSegmentWithID in fillSegmentQueue or its helpers: the next-id obligation lost its anchor")
		}
		if nInv == 0 {
			r.undecided("F7: no call of findSegmentWithInvPosition in fillSegmentQueue or its helpers: the live-start obligation lost its anchor")
		}
		// push(nil) only after Endlist && last segment
		push := c.Method("", "clientSegmentQueue", "push")
		endl := c.Field("pkg/playlist", "Media", "Endlist")
		allInstrs(fq, func(in ssa.Instruction) {
			call, ok := in.(*ssa.Call)
			if !ok || call.Call.StaticCallee() != push {
				return
			}
			k, isNil := call.Call.Args[1].(*ssa.Const)
			if !isNil || !k.IsNil() {
				return
			}
			conds := ifsOnV(fq, func(v ssa.Value) bool { f, _ := loadedField(v); return f == endl })
			if len(conds) > 0 && onlyIf(fq, call, conds, true) {
				r.ok("fillSegmentQueue|eos-sentinel", c.Pos(call.Pos()), FuncName(fq), "the end-of-stream sentinel is pushed only for an ENDLIST playlist", "guarded by pl.Endlist")
			} else {
				r.fail("fillSegmentQueue|eos-sentinel", c.Pos(call.Pos()), FuncName(fq), "the end-of-stream sentinel is pushed only for an ENDLIST playlist", "not guarded")
			}
			// ... and exactly when the segment just downloaded is the last one listed: Segments[len-1] == seg
			segF := c.Field("pkg/playlist", "Media", "Segments")
			lastConds := ifsOnV(fq, func(v ssa.Value) bool {
				bo, ok := v.(*ssa.BinOp)
				if !ok || bo.Op != token.EQL {
					return false
				}
				isLast := func(x ssa.Value) bool {
					u, ok := x.(*ssa.UnOp)
					if !ok {
						return false
					}
					ia, ok := u.X.(*ssa.IndexAddr)
					if !ok {
						return false
					}
					if f, _ := loadedField(ia.X); f != segF {
						return false
					}
					sub, ok := ia.Index.(*ssa.BinOp)
					if !ok || sub.Op != token.SUB {
						return false
					}
					k, isK := constInt(sub.Y)
					return isK && k == 1 && isLenOfField(sub.X, segF)
				}
				return isLast(bo.X) || isLast(bo.Y)
			})
			if len(lastConds) > 0 && onlyIf(fq, call, lastConds, true) {
				r.ok("fillSegmentQueue|eos-last-segment", c.Pos(call.Pos()), FuncName(fq), "the sentinel is pushed when the downloaded segment is the last one listed (`pl.Segments[len-1] == seg`)", "guarded by identity with the last listed segment")
			} else {
				r.fail("fillSegmentQueue|eos-last-segment", c.Pos(call.Pos()), FuncName(fq), "the sentinel is pushed when the downloaded segment is the last one listed (`pl.Segments[len-1] == seg`)",
					"the condition is not the identity with the last listed segment: on some start paths the end of an ENDLIST playlist is not recognised and the client never reports ErrClientEOS (or reports it early)")
			}
		})
		// distance from the live edge = len(segments) - index
		if byID != nil {
			okDist := false
			allInstrs(byID, func(in ssa.Instruction) {
				ret, ok := in.(*ssa.Return)
				if !ok || len(ret.Results) != 3 {
					return
				}
				if sub, ok := ret.Results[2].(*ssa.BinOp); ok && sub.Op == token.SUB {
					if lc, ok := sub.X.(*ssa.Call); ok {
						if b, ok := lc.Call.Value.(*ssa.Builtin); ok && b.Name() == "len" {
							if _, isParam := lc.Call.Args[0].(*ssa.Parameter); isParam && sub.Y == ret.Results[1] {
								okDist = true
							}
						}
					}
				}
			})
			if okDist {
				r.ok("findSegmentWithID|distance", c.Pos(byID.Pos()), FuncName(byID), "the distance from the live edge is len(segments) - index", "third result")
			} else if byID.Signature.Results().Len() != 3 {
				r.undecided("F7: findSegmentWithID no longer returns (segment, index, distance): form not known to the rule")
			} else {
				r.fail("findSegmentWithID|distance", c.Pos(byID.Pos()), FuncName(byID), "the distance from the live edge is len(segments) - index", "third result has another form: the `more than five segments behind` limit is off by one")
			}
		}
		// too-late check
		maxD, _ := c.rootConstInt("clientLiveMaxDistanceFromEnd")
		foundMax := false
		allIn(func(in ssa.Instruction) {
			if bo, ok := in.(*ssa.BinOp); ok && bo.Op == token.GTR {
				if k, ok := constInt(bo.Y); ok && k == maxD {
					foundMax = true
				}
			}
		})
		if foundMax {
			r.ok("fillSegmentQueue|max-distance", c.Pos(fq.Pos()), FuncName(fq), "falling more than clientLiveMaxDistanceFromEnd segments behind is an error", "invPos > clientLiveMaxDistanceFromEnd")
		} else {
			r.undecided("%s: %s — %s (the construct this rule is anchored on was not found: no verdict)", "fillSegmentQueue|max-distance", "falling more than clientLiveMaxDistanceFromEnd segments behind is an error", "comparison not found")
		}
	}
	return r
}

func ruleF8(c *Ctx) *RuleResult {
	r := &RuleResult{Floor: 4, FloorWhat: "timestamps handed to track processors"}
	n := 0
	for _, spec := range []struct{ typ string }{{"procEntryFMP4"}, {"procEntryMPEGTS"}} {
		for _, fname := range []string{"dts", "pts"} {
			f := c.Field("", spec.typ, fname)
			if f == nil {
				continue
			}
			for _, fn := range c.clientFuncs() {
				for _, st := range storesToField(c, fn, f) {
					n++
					key := fmt.Sprintf("%s|%s.%s#%d", FuncName(fn), spec.typ, fname, n)
					call, ok := st.Val.(*ssa.Call)
					if ok && call.Call.StaticCallee() != nil && (call.Call.StaticCallee().Name() == "convert" || c.isLeadingConvCall(call)) {
						r.ok(key, c.Pos(st.Pos()), FuncName(fn), "the timestamp handed to the track processor is the leading converter's result", FuncName(call.Call.StaticCallee()))
					} else {
						r.fail(key, c.Pos(st.Pos()), FuncName(fn), "the timestamp handed to the track processor is the leading converter's result", "assigned "+st.Val.String()+": tracks lose their common origin")
					}
				}
			}
		}
	}
	// setLeadingTimeConv only by the leading stream
	for _, fn := range c.clientFuncs() {
		cnt := 0
		allInstrs(fn, func(in ssa.Instruction) {
			call, ok := in.(*ssa.Call)
			if !ok || !call.Call.IsInvoke() || call.Call.Method.Name() != "setLeadingTimeConv" {
				return
			}
			cnt++
			n++
			key := fmt.Sprintf("%s|setLeadingTimeConv#%d", FuncName(fn), cnt)
			conds := ifsOnV(fn, func(v ssa.Value) bool { f, _ := loadedField(v); return f != nil && f.Name() == "isLeading" })
			if len(conds) > 0 && onlyIf(fn, call, conds, true) {
				r.ok(key, c.Pos(call.Pos()), FuncName(fn), "only the leading stream installs the time origin", "guarded by isLeading")
			} else {
				r.fail(key, c.Pos(call.Pos()), FuncName(fn), "only the leading stream installs the time origin", "not guarded by isLeading")
			}
		})
	}
	r.Instances = n
	return r
}

// ---------------------------------------------------------------------------

func ruleN1(c *Ctx) *RuleResult {
	r := &RuleResult{Floor: 3, FloorWhat: "Low-Latency numbering constants"}
	start := c.Method("", "Muxer", "Start")
	rs := c.Method("", "muxerStream", "rotateSegments")
	if start == nil || rs == nil {
		r.undecided("Muxer.Start / rotateSegments not found")
		return r
	}
	var minCount, initID, prefill int64 = -1, -1, -1
	segCount := c.Field("", "Muxer", "SegmentCount")
	// minimum SegmentCount under the LowLatency case: the larger of the two `SegmentCount < k` tests
	allInstrs(start, func(in ssa.Instruction) {
		if bo, ok := in.(*ssa.BinOp); ok && bo.Op == token.LSS {
			if f, _ := loadedField(bo.X); f == segCount {
				if k, ok := constInt(bo.Y); ok && k > minCount {
					minCount = k
				}
			}
		}
		// nextSegmentID local: phi(0, K)
		if phi, ok := in.(*ssa.Phi); ok && phi.Comment == "nextSegmentID" {
			for _, e := range phi.Edges {
				if k, ok := constInt(e); ok && k > initID {
					initID = k
				}
			}
		}
	})
	// prefill: counted loop in rotateSegments whose body appends a muxerGap
	for _, h := range rs.Blocks {
		if !isCountedLoop(h) {
			continue
		}
		iff := h.Instrs[len(h.Instrs)-1].(*ssa.If)
		bo := iff.Cond.(*ssa.BinOp)
		if k, ok := constInt(bo.Y); ok {
			gap := false
			for _, b := range rs.Blocks {
				if h.Succs[0].Dominates(b) || b == h.Succs[0] {
					for _, in := range b.Instrs {
						if al, ok := in.(*ssa.Alloc); ok && typeIs(al.Type(), modPath, "muxerGap") {
							gap = true
						}
					}
				}
			}
			if gap {
				prefill = k
			}
		}
	}
	what := "gap prefill count = initial segment id = minimum SegmentCount in Low-Latency mode (segment ids equal media sequence numbers)"
	det := fmt.Sprintf("prefill=%d initial id=%d minimum SegmentCount=%d", prefill, initID, minCount)
	if prefill > 0 && prefill == initID && initID == minCount {
		r.ok("lowlatency|numbering", c.Pos(start.Pos()), FuncName(start), what, det)
	} else {
		r.fail("lowlatency|numbering", c.Pos(start.Pos()), FuncName(start), what, det+": the number in a segment URI no longer equals its media sequence number, or gaps fall out of the window unevenly")
	}
	r.Instances = 3
	return r
}

func ruleN2(c *Ctx) *RuleResult {
	r := &RuleResult{Floor: 2, FloorWhat: "spec factors"}
	fn := c.Method("", "muxerStream", "generateMediaPlaylistFMP4")
	if fn == nil {
		r.undecided("generateMediaPlaylistFMP4 not found")
		return r
	}
	ptd := c.Field("", "muxerStream", "partTargetDuration")
	td := c.Field("", "muxerStream", "targetDuration")
	var hold, skip string
	okHold, okSkip := false, false
	allInstrs(fn, func(in ssa.Instruction) {
		bo, ok := in.(*ssa.BinOp)
		if !ok {
			return
		}
		// (ptd * a) / b
		if bo.Op == token.QUO {
			if mul, ok := bo.X.(*ssa.BinOp); ok && mul.Op == token.MUL {
				if f, _ := loadedField(mul.X); f == ptd {
					a, ok1 := constInt(mul.Y)
					b, ok2 := constInt(bo.Y)
					if ok1 && ok2 && b > 0 {
						hold = fmt.Sprintf("partTargetDuration * %d / %d", a, b)
						okHold = a >= 2*b
					}
				}
			}
		}
		// Duration(td) * k * time.Second
		if bo.Op == token.MUL {
			prod := int64(1)
			hasTD := false
			var walk func(v ssa.Value)
			walk = func(v ssa.Value) {
				if m, ok := v.(*ssa.BinOp); ok && m.Op == token.MUL {
					walk(m.X)
					walk(m.Y)
					return
				}
				if k, ok := constInt(v); ok {
					prod *= k
					return
				}
				if f, _ := loadedField(stripConv(v)); f == td {
					hasTD = true
				}
			}
			walk(bo)
			if hasTD && prod >= 1_000_000_000 {
				// outermost product only
				isOuter := true
				for _, ref := range *bo.Referrers() {
					if m, ok := ref.(*ssa.BinOp); ok && m.Op == token.MUL {
						isOuter = false
					}
				}
				if isOuter {
					skip = fmt.Sprintf("targetDuration * %d ns", prod)
					okSkip = prod >= 6*1_000_000_000
				}
			}
		}
	})
	if hold == "" {
		r.undecided("%s: %s — %s (the construct this rule is anchored on was not found: no verdict)", "generateMediaPlaylistFMP4|part-hold-back", "PART-HOLD-BACK is the part target times a factor >= 2", "expression not found")
	} else if okHold {
		r.ok("generateMediaPlaylistFMP4|part-hold-back", c.Pos(fn.Pos()), FuncName(fn), "PART-HOLD-BACK is the part target times a factor >= 2", hold)
	} else {
		r.fail("generateMediaPlaylistFMP4|part-hold-back", c.Pos(fn.Pos()), FuncName(fn), "PART-HOLD-BACK is the part target times a factor >= 2", hold)
	}
	if skip == "" {
		r.undecided("%s: %s — %s (the construct this rule is anchored on was not found: no verdict)", "generateMediaPlaylistFMP4|can-skip-until", "CAN-SKIP-UNTIL is the target duration times at least 6 seconds", "expression not found")
	} else if okSkip {
		r.ok("generateMediaPlaylistFMP4|can-skip-until", c.Pos(fn.Pos()), FuncName(fn), "CAN-SKIP-UNTIL is the target duration times at least 6 seconds", skip)
	} else {
		r.fail("generateMediaPlaylistFMP4|can-skip-until", c.Pos(fn.Pos()), FuncName(fn), "CAN-SKIP-UNTIL is the target duration times at least 6 seconds", skip)
	}
	return r
}

func ruleN3(c *Ctx) *RuleResult {
	r := &RuleResult{Floor: 4, FloorWhat: "documented constants"}
	for _, k := range []struct {
		name string
		want int64
		what string
	}{
		{"fmp4StartDTS", 10_000_000_000, "fMP4 timestamps are offset by exactly 10 s"},
		{"clientLiveInitialDistance", 3, "a live stream starts at the third segment from the end"},
		{"clientLiveMaxDistanceFromEnd", 5, "more than five segments behind the live edge is an error"},
	} {
		o, ok := c.Pkg("").Scope().Lookup(k.name).(*types.Const)
		if !ok {
			r.undecided("constant %s not found", k.name)
			continue
		}
		v, _ := constant.Int64Val(constant.ToInt(o.Val()))
		if v == k.want {
			r.ok("const|"+k.name, c.Pos(o.Pos()), "", k.what, fmt.Sprint(v))
		} else {
			r.fail("const|"+k.name, c.Pos(o.Pos()), "", k.what, fmt.Sprintf("value is %d, documented value %d", v, k.want))
		}
	}
	// MPEG-TS clock rate 90000 on both sides
	clock := c.Field("", "Track", "ClockRate")
	for _, fn := range c.clientFuncs() {
		if !strings.Contains(FuncName(fn), "MPEGTS") {
			continue
		}
		for i, st := range storesToField(c, fn, clock) {
			key := fmt.Sprintf("%s|mpegts-clock#%d", FuncName(fn), i+1)
			if k, ok := constInt(st.Val); ok && k == 90000 {
				r.ok(key, c.Pos(st.Pos()), FuncName(fn), "MPEG-TS tracks are reported with a 90 kHz clock", "90000")
			} else {
				r.fail(key, c.Pos(st.Pos()), FuncName(fn), "MPEG-TS tracks are reported with a 90 kHz clock", st.Val.String())
			}
		}
	}
	for _, name := range []string{"writeH264", "writeMPEG4Audio"} {
		fn := c.Method("", "muxerSegmentMPEGTS", name)
		if fn == nil {
			continue
		}
		mad := c.Func("", "multiplyAndDivide")
		n := 0
		allInstrs(fn, func(in ssa.Instruction) {
			if call, ok := in.(*ssa.Call); ok && call.Call.StaticCallee() == mad {
				n++
				key := fmt.Sprintf("%s|mpegts-90k#%d", FuncName(fn), n)
				if k, ok := constInt(call.Call.Args[1]); ok && k == 90000 {
					r.ok(key, c.Pos(call.Pos()), FuncName(fn), "MPEG-TS timestamps are written at 90 kHz", "multiplyAndDivide(_, 90000, clockRate)")
				} else {
					r.fail(key, c.Pos(call.Pos()), FuncName(fn), "MPEG-TS timestamps are written at 90 kHz", call.Call.Args[1].String())
				}
			}
		})
	}
	return r
}

// ---------------------------------------------------------------------------
// F9: request-controlled text reaches quoted attributes only through the query re-encoder

func init() {
	registerRule("F9", "quoted attributes are injection-free: every string the muxer stores into a playlist field that the encoder prints inside quotes is built from constants, library-owned fields and the re-encoded (url.Values.Encode) query only — never from the raw request query", ruleF9)
}

type cleanCtx struct {
	c    *Ctx
	memo map[ssa.Value]string
	busy map[ssa.Value]bool
}

// why returns "" when v cannot carry raw request text.
func (k *cleanCtx) why(v ssa.Value, depth int) string {
	if depth > 14 {
		return "provenance too deep"
	}
	if w, ok := k.memo[v]; ok {
		return w
	}
	if k.busy[v] {
		return ""
	}
	k.busy[v] = true
	defer delete(k.busy, v)
	w := k.why0(v, depth)
	k.memo[v] = w
	return w
}

func (k *cleanCtx) why0(v ssa.Value, depth int) string {
	c := k.c
	switch x := v.(type) {
	case *ssa.Const:
		return ""
	case *ssa.BinOp:
		if x.Op == token.ADD {
			if w := k.why(x.X, depth+1); w != "" {
				return w
			}
			return k.why(x.Y, depth+1)
		}
		return ""
	case *ssa.Convert:
		return k.why(x.X, depth+1)
	case *ssa.ChangeType:
		return k.why(x.X, depth+1)
	case *ssa.Phi:
		for i, e := range x.Edges {
			// an edge on which the value is known to be empty carries nothing
			pred := x.Block().Preds[i]
			if emptyOnEdge(e, pred, x.Block()) {
				continue
			}
			if w := k.why(e, depth+1); w != "" {
				return w
			}
		}
		return ""
	case *ssa.UnOp:
		if x.Op == token.MUL {
			if f, _ := fieldOfAddr(x.X); f != nil {
				if f.Pkg() != nil && isLibPkgPath(f.Pkg().Path()) {
					return "" // library-owned state (paths, names, ids)
				}
				return "reads " + c.fieldName(f) + " (request data) at " + c.Pos(x.Pos())
			}
			if al, ok := x.X.(*ssa.Alloc); ok {
				for _, ref := range *al.Referrers() {
					if st, ok := ref.(*ssa.Store); ok && st.Addr == al {
						if w := k.why(st.Val, depth+1); w != "" {
							return w
						}
					}
				}
				return ""
			}
		}
		return "unrecognised source " + v.String()
	case *ssa.Alloc:
		for _, ref := range *x.Referrers() {
			if st, ok := ref.(*ssa.Store); ok && st.Addr == x {
				if w := k.why(st.Val, depth+1); w != "" {
					return w
				}
			}
		}
		return ""
	case *ssa.Parameter:
		fn := x.Parent()
		idx := -1
		for i, p := range fn.Params {
			if p == x {
				idx = i
			}
		}
		n := 0
		for _, e := range c.callersOf(fn) {
			if e.Site == nil || !InLib(e.Caller.Func) {
				continue
			}
			args := e.Site.Common().Args
			var arg ssa.Value
			if e.Site.Common().IsInvoke() || e.Site.Common().StaticCallee() == nil {
				// dynamic call through a func value: parameters line up with the arguments
				off := 0
				if fn.Signature.Recv() != nil {
					off = 1
				}
				if idx-off >= 0 && idx-off < len(args) {
					arg = args[idx-off]
				}
			} else if idx < len(args) {
				arg = args[idx]
			}
			if arg == nil {
				continue
			}
			n++
			if w := k.why(arg, depth+1); w != "" {
				return "argument at " + c.Pos(e.Site.Pos()) + " in " + FuncName(e.Caller.Func) + ": " + w
			}
		}
		if n == 0 {
			return "parameter " + x.Name() + " of " + FuncName(fn) + " has no library call site"
		}
		return ""
	case *ssa.FreeVar:
		fn := x.Parent()
		idx := -1
		for i, fv := range fn.FreeVars {
			if fv == x {
				idx = i
			}
		}
		w := ""
		if fn.Parent() != nil {
			allInstrs(fn.Parent(), func(in ssa.Instruction) {
				if mc, ok := in.(*ssa.MakeClosure); ok && mc.Fn == fn && idx >= 0 && idx < len(mc.Bindings) {
					if ww := k.why(mc.Bindings[idx], depth+1); ww != "" {
						w = ww
					}
				}
			})
		}
		return w
	case *ssa.Call:
		f := x.Call.StaticCallee()
		if isMethodNamed(f, "net/url", "Values", "Encode") {
			return ""
		}
		if f != nil && f.Pkg != nil && f.Pkg.Pkg.Path() == "strconv" {
			return ""
		}
		if f != nil && InLib(f) && f.Blocks != nil {
			bad := ""
			allInstrs(f, func(in ssa.Instruction) {
				if ret, ok := in.(*ssa.Return); ok && len(ret.Results) > 0 {
					rv := retVal(ret, 0)
					// `if q == "" { return q }`: what is returned there is the empty string
					knownEmpty := false
					for _, fa := range factsAt(ret.Block()) {
						if bo, isBo := fa.cond.(*ssa.BinOp); isBo && bo.X == rv {
							if e, isS := constString(bo.Y); isS && e == "" && ((bo.Op == token.EQL && fa.pol) || (bo.Op == token.NEQ && !fa.pol)) {
								knownEmpty = true
							}
						}
					}
					if knownEmpty {
						return
					}
					if w := k.why(rv, depth+1); w != "" {
						bad = "result of " + FuncName(f) + ": " + w
					}
				}
			})
			return bad
		}
		// any other call: its result can only carry request text that one of its operands carries
		if x.Call.IsInvoke() {
			if w := k.why(x.Call.Value, depth+1); w != "" {
				return w
			}
		}
		for _, a := range x.Call.Args {
			if w := k.why(a, depth+1); w != "" {
				return w
			}
		}
		return ""
	case *ssa.Extract:
		return k.why(x.Tuple, depth+1)
	case *ssa.Slice:
		return k.why(x.X, depth+1)
	case *ssa.MakeInterface:
		return k.why(x.X, depth+1)
	case *ssa.TypeAssert:
		return k.why(x.X, depth+1)
	case *ssa.Field:
		if f, _ := fieldOfValue(x); f != nil && f.Pkg() != nil && isLibPkgPath(f.Pkg().Path()) {
			return ""
		}
		return k.why(x.X, depth+1)
	case *ssa.IndexAddr:
		return k.why(x.X, depth+1)
	case *ssa.Lookup:
		return k.why(x.X, depth+1)
	case *ssa.FieldAddr:
		if f, _ := fieldOfAddr(x); f != nil && f.Pkg() != nil && isLibPkgPath(f.Pkg().Path()) {
			return ""
		}
		return "address of " + x.String()
	case *ssa.Global, *ssa.Function, *ssa.MakeClosure, *ssa.MakeSlice, *ssa.MakeMap:
		return ""
	}
	return "unrecognised source " + v.String()
}

// emptyOnEdge: the edge pred→blk is only taken when v == "".
func emptyOnEdge(v ssa.Value, pred, blk *ssa.BasicBlock) bool {
	if len(pred.Instrs) == 0 {
		return false
	}
	iff, ok := pred.Instrs[len(pred.Instrs)-1].(*ssa.If)
	if !ok {
		return false
	}
	bo, ok := iff.Cond.(*ssa.BinOp)
	if !ok || bo.X != v {
		return false
	}
	s, isS := constString(bo.Y)
	if !isS || s != "" {
		return false
	}
	takenWhenTrue := pred.Succs[0] == blk
	if pred.Succs[0] == pred.Succs[1] {
		return false
	}
	return (bo.Op == token.NEQ && !takenWhenTrue) || (bo.Op == token.EQL && takenWhenTrue)
}

func ruleF9(c *Ctx) *RuleResult {
	r := &RuleResult{Floor: 4, FloorWhat: "stores into playlist fields that are printed inside quotes"}
	// fields printed inside quotes
	quoted := map[*types.Var]bool{}
	for _, ea := range c.emittedAttrs() {
		if ea.quoted && ea.val != nil {
			for _, f := range fieldsFeeding(ea.val, 0) {
				if isPlaylistField(c, f) {
					quoted[f] = true
				}
			}
		}
	}
	if len(quoted) < 10 {
		r.undecided("only %d quoted playlist fields found (floor 10)", len(quoted))
	}
	ro := c.roles()
	set := c.reachRole(ro.R)
	k := &cleanCtx{c: c, memo: map[ssa.Value]string{}, busy: map[ssa.Value]bool{}}
	n := 0
	for _, fn := range c.Funcs {
		if !set[fn] || !InRootPkg(fn) {
			continue
		}
		cnt := 0
		allInstrs(fn, func(in ssa.Instruction) {
			st, ok := in.(*ssa.Store)
			if !ok {
				return
			}
			f, _ := fieldOfAddr(st.Addr)
			if f == nil || !quoted[f] {
				return
			}
			if _, isConst := st.Val.(*ssa.Const); isConst {
				return
			}
			n++
			cnt++
			key := fmt.Sprintf("%s|%s#%d", FuncName(fn), c.fieldName(f), cnt)
			what := c.fieldName(f) + " is printed inside quotes: nothing stored into it may carry raw request text"
			if w := k.why(st.Val, 0); w == "" {
				r.ok(key, c.Pos(st.Pos()), FuncName(fn), what, "built from constants, library-owned fields and the re-encoded query")
			} else {
				r.fail(key, c.Pos(st.Pos()), FuncName(fn), what, w+": a request whose query contains a double quote yields a playlist that no parser (including this library's) accepts")
			}
		})
	}
	r.Instances = n
	return r
}

// isLeadingConvCall: call is a method call whose receiver is the client's leading time converter — a value that
// comes (through type assertions and small accessor functions) from the field Client.leadingTimeConv — and that
// returns a timestamp.
func (c *Ctx) isLeadingConvCall(call *ssa.Call) bool {
	convF := c.Field("", "Client", "leadingTimeConv")
	g := call.Call.StaticCallee()
	if convF == nil || g == nil || g.Signature.Recv() == nil || len(call.Call.Args) == 0 {
		return false
	}
	if g.Signature.Results().Len() != 1 || !isTimestampType(g.Signature.Results().At(0).Type()) {
		return false
	}
	var from func(v ssa.Value, depth int) bool
	from = func(v ssa.Value, depth int) bool {
		if depth > 6 {
			return false
		}
		v = stripAsserts(v)
		if f, _ := loadedField(v); f == convF {
			return true
		}
		x, ok := v.(*ssa.Call)
		if !ok {
			return false
		}
		var callees []*ssa.Function
		if sc := x.Call.StaticCallee(); sc != nil {
			callees = []*ssa.Function{sc}
		} else {
			callees = c.calleesOf(x)
		}
		for _, h := range callees {
			if !InRootPkg(h) || h.Blocks == nil {
				continue
			}
			for _, b := range h.Blocks {
				if ret, ok := b.Instrs[len(b.Instrs)-1].(*ssa.Return); ok && len(ret.Results) >= 1 {
					if from(retVal(ret, 0), depth+1) {
						return true
					}
				}
			}
		}
		return false
	}
	return from(call.Call.Args[0], 0)
}
