package main

import (
	"go/types"
	"strings"

	"golang.org/x/tools/go/ssa"
)

// Encoder / decoder function sets of the playlist packages, defined by reachability from the exported entry
// points instead of by the names `marshal` / `unmarshal` (a method may become a function, a function may be split).

func inPlaylistPkgs(fn *ssa.Function) bool {
	p := fn
	for p != nil && p.Pkg == nil && p.Parent() != nil {
		p = p.Parent()
	}
	if p == nil || p.Pkg == nil {
		return false
	}
	path := p.Pkg.Pkg.Path()
	return path == modPath+"/pkg/playlist" || path == modPath+"/pkg/playlist/primitives"
}

func (c *Ctx) codecSets() (enc, dec map[*ssa.Function]bool) {
	if v, ok := c.cache["codecsets"]; ok {
		x := v.([2]map[*ssa.Function]bool)
		return x[0], x[1]
	}
	var encRoots, decRoots []*ssa.Function
	for _, fn := range c.Funcs {
		if !inPlaylistPkgs(fn) || fn.Parent() != nil {
			continue
		}
		switch fn.Name() {
		case "Marshal":
			encRoots = append(encRoots, fn)
		case "Unmarshal":
			decRoots = append(decRoots, fn)
		}
	}
	stop := func(f *ssa.Function) bool { return !inPlaylistPkgs(f) }
	enc, dec = c.reach(encRoots, stop), c.reach(decRoots, stop)
	// closures of reached functions
	for _, set := range []map[*ssa.Function]bool{enc, dec} {
		for _, fn := range c.Funcs {
			if fn.Parent() != nil && set[enclosingNamed(fn)] {
				set[fn] = true
			}
		}
	}
	c.cache["codecsets"] = [2]map[*ssa.Function]bool{enc, dec}
	return enc, dec
}

// isMarshalFunc: fn produces text of a playlist: it is reachable from an exported Marshal and returns a string
// or a byte slice. (MediaKey.Equal and the like are reachable too but return something else.)
func (c *Ctx) isMarshalFunc(fn *ssa.Function) bool {
	if fn == nil {
		return false
	}
	enc, _ := c.codecSets()
	if !enc[fn] {
		return false
	}
	return isStringish(fn.Signature.Results())
}

// codecFuncOf finds the encoder ("marshal") or decoder ("unmarshal") of a tag struct of pkg/playlist: the method
// of that name, or — after a refactoring — the reachable function of the package whose receiver or first parameter
// is the struct (or a pointer to it) and that has the encoder's / decoder's shape.
func (c *Ctx) codecFuncOf(typeName, kind string) *ssa.Function {
	if m := c.Method("pkg/playlist", typeName, kind); m != nil {
		return m
	}
	if m := c.Method("pkg/playlist", typeName, strings.ToUpper(kind[:1])+kind[1:]); m != nil {
		return nil // a top-level playlist type: it has the exported entry point, not a tag codec
	}
	named := c.NamedType("pkg/playlist", typeName)
	if named == nil {
		return nil
	}
	enc, dec := c.codecSets()
	var best *ssa.Function
	for _, fn := range c.Funcs {
		if !inPlaylistPkgs(fn) || fn.Parent() != nil || len(fn.Params) == 0 {
			continue
		}
		if namedOf(fn.Params[0].Type()) != named {
			continue
		}
		sig := fn.Signature
		switch kind {
		case "marshal":
			if !enc[fn] || !isStringish(sig.Results()) {
				continue
			}
			// exactly the struct: no further parameters
			if len(fn.Params) != 1 {
				continue
			}
		case "unmarshal":
			if !dec[fn] {
				continue
			}
			hasStr, retErr := false, false
			for _, p := range fn.Params[1:] {
				if isStringType(p.Type()) {
					hasStr = true
				}
			}
			for i := 0; i < sig.Results().Len(); i++ {
				if types.Identical(sig.Results().At(i).Type(), types.Universe.Lookup("error").Type()) {
					retErr = true
				}
			}
			if !hasStr || !retErr {
				continue
			}
		}
		if best == nil || len(fn.Name()) < len(best.Name()) {
			best = fn
		}
	}
	return best
}

// withLocalHelpers: fn plus the functions of the playlist packages it calls (transitively, bounded) that take the
// same struct as receiver / first parameter: the "phases" a function may have been split into.
func (c *Ctx) withLocalHelpers(fn *ssa.Function) []*ssa.Function {
	if fn == nil {
		return nil
	}
	out := []*ssa.Function{fn}
	var base *types.Named
	if len(fn.Params) > 0 {
		base = namedOf(fn.Params[0].Type())
	}
	for i := 0; i < len(out) && i < 12; i++ {
		allInstrs(out[i], func(in ssa.Instruction) {
			call, ok := in.(*ssa.Call)
			if !ok {
				return
			}
			g := call.Call.StaticCallee()
			if g == nil || g.Blocks == nil || !inPlaylistPkgs(g) || len(g.Params) == 0 || base == nil || namedOf(g.Params[0].Type()) != base {
				return
			}
			// the helper works on the same object
			if len(call.Call.Args) == 0 || canon(call.Call.Args[0]) != canon(out[i].Params[0]) {
				if u, ok := call.Call.Args[0].(*ssa.UnOp); !ok || canon(u.X) != canon(out[i].Params[0]) {
					return
				}
			}
			out = appendUnique(out, g)
		})
	}
	return out
}
