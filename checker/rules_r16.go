package main

// Sixteenth batch: rules written after the sixteenth round of seeded changes (one agent per property).

import (
	"fmt"
	"go/token"
	"go/types"
	"strings"

	"golang.org/x/tools/go/ssa"
)

func init() {
	registerRule("G1c", "the cut threshold is the user's: every store to muxerSegmenter.segmentMinDuration takes Muxer.SegmentMinDuration, read directly (a rounded or derived minimum skips cuts that are due)", ruleG1c)
	registerRule("K24", "no unbounded retry: no function of the client calls itself (a download that answers a failure by asking again, with no counter and no delay, never ends with an error)", ruleK24)
	registerRule("F58", "a payload is read whole or not at all: where a client function reads a response body through io.LimitReader, the same function compares a length with that limit (a capped read that is not checked hands a truncated segment on as if it were complete)", ruleF58)
	registerRule("T36", "the encoder walks the playlist's own lists: no Marshal/marshal function of pkg/playlist calls a function that returns a slice of playlist elements (a rebuilt list changes the order Unmarshal gives back)", ruleT36)
	registerRule("P11", "a listed segment is frozen: outside the methods of the segment types themselves no code stores into a field of a segment reached through the window (muxerStream.segments)", ruleP11)
	registerRule("G11q", "a rendition is listed because the stream is one: in populateMultivariantPlaylist the construction of a MultivariantRendition is control dependent on stream configuration only (fields that nothing writes after Start), never on a call or on state the writer changes", ruleG11q)
	registerRule("F3c", "one notion of a directive: the `_HLS_` prefix test that removes directives from the query copied into URIs is applied to decoded keys (keys of url.ParseQuery / URL.Query), as the handler's own look-ups are — not to pieces of the raw query", ruleF3c)
}

// ---------------------------------------------------------------------------

func ruleG1c(c *Ctx) *RuleResult {
	r := &RuleResult{Floor: 1, FloorWhat: "stores of the segmenter's minimum segment duration"}
	f := c.Field("", "muxerSegmenter", "segmentMinDuration")
	user := c.Field("", "Muxer", "SegmentMinDuration")
	if f == nil || user == nil {
		r.undecided("muxerSegmenter.segmentMinDuration / Muxer.SegmentMinDuration not found")
		return r
	}
	n := 0
	for _, fn := range c.Funcs {
		if !InRootPkg(fn) || fn.Blocks == nil {
			continue
		}
		for _, st := range storesToField(c, fn, f) {
			n++
			key := fmt.Sprintf("%s|segmentMinDuration#%d", FuncName(fn), n)
			what := "a segment is cut at the first random-access unit at or after SegmentMinDuration, the value the user configured"
			if g, _ := loadedField(stripConv(st.Val)); g == user {
				r.ok(key, c.Pos(st.Pos()), FuncName(fn), what, "Muxer.SegmentMinDuration")
			} else {
				r.fail(key, c.Pos(st.Pos()), FuncName(fn), what, "the threshold is "+describeVal(canon(st.Val))+", not the configured value: a key frame that arrives between the configured minimum and the derived one no longer starts a segment")
			}
		}
	}
	r.Instances = n
	return r
}

// ---------------------------------------------------------------------------

func ruleK24(c *Ctx) *RuleResult {
	r := &RuleResult{Floor: 20, FloorWhat: "client functions"}
	n := 0
	for _, fn := range c.clientFuncs() {
		if fn.Blocks == nil {
			continue
		}
		n++
		self := ""
		allInstrs(fn, func(in ssa.Instruction) {
			if ci, ok := in.(ssa.CallInstruction); ok {
				if g := ci.Common().StaticCallee(); g != nil && (g == fn || enclosingNamed(g) == fn && g != fn && false) {
					self = c.Pos(in.Pos())
				}
			}
		})
		key := FuncName(fn) + "|no-self-call"
		what := "every failure of a download ends the attempt: the error is returned, not answered by another attempt of the same function"
		if self == "" {
			r.ok(key, c.Pos(fn.Pos()), FuncName(fn), what, "does not call itself")
		} else {
			r.fail(key, self, FuncName(fn), what, FuncName(fn)+" calls itself at "+self+": against a server that keeps failing the same way (a body cut short of its Content-Length) the client loops at full speed and Wait never yields")
		}
	}
	r.Instances = n
	return r
}

// ---------------------------------------------------------------------------

func ruleF58(c *Ctx) *RuleResult {
	r := &RuleResult{Floor: 0, FloorWhat: "capped body reads in client code"}
	n := 0
	for _, fn := range c.clientFuncs() {
		if fn.Blocks == nil {
			continue
		}
		allInstrs(fn, func(in ssa.Instruction) {
			call, ok := in.(*ssa.Call)
			if !ok || !isFuncNamed(call.Call.StaticCallee(), "io", "LimitReader") {
				return
			}
			n++
			key := fmt.Sprintf("%s|limit#%d", FuncName(fn), n)
			what := "every access unit of a downloaded segment is delivered: a body is never cut silently"
			lim, isK := constInt(call.Call.Args[1])
			checked := false
			allInstrs(fn, func(x ssa.Instruction) {
				bo, ok := x.(*ssa.BinOp)
				if !ok {
					return
				}
				switch bo.Op {
				case token.GTR, token.GEQ, token.LSS, token.LEQ, token.EQL, token.NEQ:
				default:
					return
				}
				for _, side := range []ssa.Value{bo.X, bo.Y} {
					if k, ok := constInt(side); ok && isK && (k == lim || k == lim+1 || k == lim-1) {
						checked = true
					}
					if !isK && side == call.Call.Args[1] {
						checked = true
					}
				}
			})
			if checked {
				r.ok(key, c.Pos(call.Pos()), FuncName(fn), what, "the length read is compared with the limit")
			} else {
				r.fail(key, c.Pos(call.Pos()), FuncName(fn), what, "the body is read through io.LimitReader and nothing in "+FuncName(fn)+" compares a length with the limit: LimitReader reports a plain EOF at the cap, so an oversized segment is demuxed as if it ended there — the units behind the cap are lost without an error")
			}
		})
	}
	r.Instances = n
	return r
}

// ---------------------------------------------------------------------------

func ruleT36(c *Ctx) *RuleResult {
	r := &RuleResult{Floor: 4, FloorWhat: "encoders of pkg/playlist"}
	n := 0
	isPlaylistElemSlice := func(t types.Type) bool {
		sl, ok := t.Underlying().(*types.Slice)
		if !ok {
			return false
		}
		e := sl.Elem()
		if p, isP := e.(*types.Pointer); isP {
			e = p.Elem()
		}
		nt, isN := e.(*types.Named)
		return isN && nt.Obj().Pkg() != nil && nt.Obj().Pkg().Path() == modPath+"/pkg/playlist"
	}
	for _, fn := range c.Funcs {
		if fn.Blocks == nil || fn.Pkg == nil || fn.Pkg.Pkg.Path() != modPath+"/pkg/playlist" {
			continue
		}
		ln := strings.ToLower(fn.Name())
		if !strings.Contains(ln, "marshal") || strings.Contains(ln, "unmarshal") {
			continue
		}
		n++
		key := FuncName(fn) + "|own-lists"
		what := "Unmarshal(Marshal(p)) == p position by position: elements are printed in the order of the playlist's own slices"
		bad := ""
		allInstrs(fn, func(in ssa.Instruction) {
			call, ok := in.(*ssa.Call)
			if !ok {
				return
			}
			res := call.Call.Signature().Results()
			for i := 0; i < res.Len(); i++ {
				if isPlaylistElemSlice(res.At(i).Type()) {
					name := "a function value"
					if g := call.Call.StaticCallee(); g != nil {
						name = FuncName(g)
					}
					bad = name + " at " + c.Pos(call.Pos())
				}
			}
		})
		if bad == "" {
			r.ok(key, c.Pos(fn.Pos()), FuncName(fn), what, "no rebuilt element list")
		} else {
			r.fail(key, c.Pos(fn.Pos()), FuncName(fn), what, "the encoder walks the result of "+bad+" instead of the playlist's own slice: whatever that function reorders, groups or drops comes back differently from Unmarshal")
		}
	}
	r.Instances = n
	return r
}

// ---------------------------------------------------------------------------

func ruleP11(c *Ctx) *RuleResult {
	r := &RuleResult{Floor: 0, FloorWhat: "stores into segments reached through the window"}
	win := c.Field("", "muxerStream", "segments")
	if win == nil {
		r.undecided("muxerStream.segments not found")
		return r
	}
	fromWindow := func(v ssa.Value) bool {
		seen := map[ssa.Value]bool{}
		var walk func(v ssa.Value, d int) bool
		walk = func(v ssa.Value, d int) bool {
			if v == nil || d > 8 || seen[v] {
				return false
			}
			seen[v] = true
			v = stripAsserts(canon(v))
			switch x := v.(type) {
			case *ssa.UnOp:
				if x.Op == token.MUL {
					if ia, ok := x.X.(*ssa.IndexAddr); ok {
						if f, _ := loadedField(ia.X); f == win {
							return true
						}
						return walk(ia.X, d+1)
					}
					if f, _ := fieldOfAddr(x.X); f == win {
						return true
					}
				}
			case *ssa.Extract:
				return walk(x.Tuple, d+1)
			case *ssa.TypeAssert:
				return walk(x.X, d+1)
			case *ssa.Next:
				if rg, ok := x.Iter.(*ssa.Range); ok {
					return walk(rg.X, d+1)
				}
			case *ssa.Phi:
				for _, e := range x.Edges {
					if walk(e, d+1) {
						return true
					}
				}
			case *ssa.Slice:
				return walk(x.X, d+1)
			case *ssa.Index:
				return walk(x.X, d+1)
			}
			return false
		}
		return walk(v, 0)
	}
	n := 0
	chk := 0
	for _, fn := range c.Funcs {
		if !InRootPkg(fn) || fn.Blocks == nil || isClientFunc(enclosingNamed(fn)) {
			continue
		}
		// methods of the segment types manage their own fields (close, finalize)
		if rv := fn.Signature.Recv(); rv != nil {
			if nt := namedOf(rv.Type()); nt != nil && strings.HasPrefix(nt.Obj().Name(), "muxerSegment") {
				continue
			}
		}
		allInstrs(fn, func(in ssa.Instruction) {
			st, ok := in.(*ssa.Store)
			if !ok {
				return
			}
			f, base := fieldOfAddr(st.Addr)
			if f == nil {
				return
			}
			nt := namedOf(base.Type())
			if nt == nil || !(strings.HasPrefix(nt.Obj().Name(), "muxerSegment") || nt.Obj().Name() == "muxerGap") {
				return
			}
			chk++
			if !fromWindow(base) {
				return
			}
			n++
			key := fmt.Sprintf("%s|store %s#%d", FuncName(fn), f.Name(), n)
			r.fail(key, c.Pos(st.Pos()), FuncName(fn), "a given media sequence number always denotes the same URI, duration and date: what a playlist has listed does not change afterwards",
				c.fieldName(f)+" of a segment taken from the window is rewritten: a client that has already seen this entry sees it again with another value")
		})
	}
	if n == 0 {
		r.ok("window|no-store", "", "", "a given media sequence number always denotes the same URI, duration and date: what a playlist has listed does not change afterwards", fmt.Sprintf("%d stores into segment objects examined, none reaches its object through muxerStream.segments", chk))
	}
	r.Instances = n
	return r
}

// ---------------------------------------------------------------------------

func ruleG11q(c *Ctx) *RuleResult {
	r := &RuleResult{Floor: 1, FloorWhat: "renditions built by populateMultivariantPlaylist"}
	fn := c.Method("", "muxerStream", "populateMultivariantPlaylist")
	if fn == nil {
		r.undecided("(*muxerStream).populateMultivariantPlaylist not found")
		return r
	}
	// fields of muxerStream / muxerTrack that something outside Start/initialize stores: runtime state
	wset, _, _ := c.roleSets()
	runtimeField := func(f *types.Var) bool {
		for g := range wset {
			if g.Blocks == nil || !InRootPkg(g) {
				continue
			}
			if len(storesToField(c, g, f)) > 0 {
				return true
			}
		}
		return false
	}
	n := 0
	allInstrs(fn, func(in ssa.Instruction) {
		al, ok := in.(*ssa.Alloc)
		if !ok || al.Comment != "complit" {
			return
		}
		nt := namedOf(al.Type())
		if nt == nil || nt.Obj().Name() != "MultivariantRendition" {
			return
		}
		n++
		key := fmt.Sprintf("populateMultivariantPlaylist|rendition#%d", n)
		what := "every non-leading audio track appears as exactly one rendition in every multivariant playlist, whatever has been written so far"
		bad := ""
		// every branch whose two sides differ in whether they can reach the construction decides it
		for _, b := range fn.Blocks {
			iff, isIf := b.Instrs[len(b.Instrs)-1].(*ssa.If)
			if !isIf || len(b.Succs) != 2 || bad != "" {
				continue
			}
			// error checks of earlier steps and comma-ok results decide whether a playlist is produced at all
			if bo, isBo := iff.Cond.(*ssa.BinOp); isBo {
				if k, isK := bo.Y.(*ssa.Const); isK && k.IsNil() {
					continue
				}
				if k, isK := bo.X.(*ssa.Const); isK && k.IsNil() {
					continue
				}
			}
			if _, isEx := iff.Cond.(*ssa.Extract); isEx {
				continue
			}
			blk := map[int]bool{b.Index: true}
			rt := reachableBlocks(fn, b.Succs[0].Index, nil, blk)[al.Block().Index] || b.Succs[0] == al.Block()
			rf := reachableBlocks(fn, b.Succs[1].Index, nil, blk)[al.Block().Index] || b.Succs[1] == al.Block()
			if rt == rf {
				continue
			}
			var leaves func(v ssa.Value, d int)
			leaves = func(v ssa.Value, d int) {
				if v == nil || d > 5 || bad != "" {
					return
				}
				switch x := v.(type) {
				case *ssa.Call:
					if _, isBi := x.Call.Value.(*ssa.Builtin); isBi {
						for _, a := range x.Call.Args {
							leaves(a, d+1)
						}
						return
					}
					name := "a function value"
					if g := x.Call.StaticCallee(); g != nil {
						name = FuncName(g)
					}
					if x.Call.IsInvoke() {
						name = x.Call.Method.Name()
					}
					bad = "the result of " + name
				case *ssa.BinOp:
					leaves(x.X, d+1)
					leaves(x.Y, d+1)
				case *ssa.UnOp:
					if f, _ := loadedField(v); f != nil {
						if f.Pkg() != nil && f.Pkg().Path() == modPath && runtimeField(f) {
							bad = "the field " + c.fieldName(f) + ", which the writer changes"
						}
						return
					}
					leaves(x.X, d+1)
				case *ssa.Phi:
					for _, e := range x.Edges {
						leaves(e, d+1)
					}
				}
			}
			leaves(iff.Cond, 0)
		}
		if bad == "" {
			r.ok(key, c.Pos(al.Pos()), FuncName(fn), what, "depends on configuration only")
		} else {
			r.fail(key, c.Pos(al.Pos()), FuncName(fn), what, "whether the rendition is listed depends on "+bad+": at some moments of a write history (a track that has not received a sample yet) the rendition is missing, and with it possibly the only DEFAULT one")
		}
	})
	r.Instances = n
	return r
}

// ---------------------------------------------------------------------------

func ruleF3c(c *Ctx) *RuleResult {
	r := &RuleResult{Floor: 1, FloorWhat: "directive prefix tests of the muxer"}
	n := 0
	for _, fn := range c.Funcs {
		if !InRootPkg(fn) || fn.Blocks == nil || isClientFunc(enclosingNamed(fn)) {
			continue
		}
		allInstrs(fn, func(in ssa.Instruction) {
			call, ok := in.(*ssa.Call)
			if !ok || !isFuncNamed(call.Call.StaticCallee(), "strings", "HasPrefix") || len(call.Call.Args) != 2 {
				return
			}
			k, isK := constString(call.Call.Args[1])
			if !isK || !strings.HasPrefix(k, "_HLS_") {
				return
			}
			n++
			key := fmt.Sprintf("%s|directive-test#%d", FuncName(fn), n)
			what := "what the handler honours as a directive is exactly what is kept out of the URIs it lists"
			// the tested string is a key coming out of a range over a url.Values map
			okSrc := false
			v := canon(call.Call.Args[0])
			if ex, isEx := v.(*ssa.Extract); isEx {
				if nx, isNx := ex.Tuple.(*ssa.Next); isNx {
					if rg, isRg := nx.Iter.(*ssa.Range); isRg {
						if nt := namedOf(rg.X.Type()); nt != nil && nt.Obj().Name() == "Values" && nt.Obj().Pkg() != nil && nt.Obj().Pkg().Path() == "net/url" {
							okSrc = true
						}
					}
				}
			}
			// a piece of the raw query: a substring, or an element of what strings.Split & co. return
			raw := false
			var walk func(x ssa.Value, d int)
			walk = func(x ssa.Value, d int) {
				if x == nil || d > 6 || raw {
					return
				}
				switch y := canon(x).(type) {
				case *ssa.Slice:
					if b, isB := y.X.Type().Underlying().(*types.Basic); isB && b.Info()&types.IsString != 0 {
						raw = true
						return
					}
					walk(y.X, d+1)
				case *ssa.UnOp:
					if ia, isIA := y.X.(*ssa.IndexAddr); isIA {
						walk(ia.X, d+1)
					}
				case *ssa.Extract:
					walk(y.Tuple, d+1)
				case *ssa.Next:
					if rg, isRg := y.Iter.(*ssa.Range); isRg {
						walk(rg.X, d+1)
					}
				case *ssa.Phi:
					for _, e := range y.Edges {
						walk(e, d+1)
					}
				case *ssa.Call:
					if g := y.Call.StaticCallee(); g != nil && g.Pkg != nil && g.Pkg.Pkg.Path() == "strings" {
						switch g.Name() {
						case "Split", "SplitN", "SplitAfter", "Cut", "Fields", "FieldsFunc", "TrimPrefix", "TrimLeft":
							raw = true
						}
					}
				}
			}
			if !okSrc {
				walk(call.Call.Args[0], 0)
			}
			if okSrc {
				r.ok(key, c.Pos(call.Pos()), FuncName(fn), what, "tested on a key of url.Values (decoded)")
			} else if !raw {
				r.undecided("F3c: the string tested for the `_HLS_` prefix in %s (%s) is neither a key of url.Values nor recognisably a piece of the raw query: form not known to the rule", FuncName(fn), c.Pos(call.Pos()))
			} else {
				r.fail(key, c.Pos(call.Pos()), FuncName(fn), what, "the prefix is tested on "+describeVal(v)+", not on a decoded key of url.Values: `%5FHLS_msn=…` is honoured by the handler (URL.Query decodes it) and copied into every URI of the answer")
			}
		})
	}
	r.Instances = n
	return r
}

// ---------------------------------------------------------------------------

func init() {
	registerRule("F5c", "an accepted unit is written: in the write methods of the MPEG-TS segment no return of a nil error is reachable without passing the call to mediacommon's mpegts writer", ruleF5c)
}

func ruleF5c(c *Ctx) *RuleResult {
	r := &RuleResult{Floor: 2, FloorWhat: "write methods of the MPEG-TS segment"}
	seg := c.NamedType("", "muxerSegmentMPEGTS")
	if seg == nil {
		r.undecided("muxerSegmentMPEGTS not found")
		return r
	}
	n := 0
	for _, fn := range c.Funcs {
		if fn.Blocks == nil || fn.Signature.Recv() == nil || namedOf(fn.Signature.Recv().Type()) != seg || !strings.HasPrefix(fn.Name(), "write") {
			continue
		}
		n++
		key := FuncName(fn) + "|written-before-success"
		what := "every unit whose Write returned nil is in the segment"
		blocked := map[int]bool{}
		for _, b := range fn.Blocks {
			for _, in := range b.Instrs {
				if call, ok := in.(*ssa.Call); ok {
					g := call.Call.StaticCallee()
					if g != nil && g.Pkg != nil && strings.Contains(g.Pkg.Pkg.Path(), "/formats/mpegts") && strings.HasPrefix(g.Name(), "Write") {
						blocked[b.Index] = true
					}
				}
			}
		}
		if len(blocked) == 0 {
			r.undecided("F5c: %s does not call the mpegts writer", FuncName(fn))
			continue
		}
		bad := ""
		if !blocked[0] {
			seen := reachableBlocks(fn, 0, nil, blocked)
			for _, b := range fn.Blocks {
				if !seen[b.Index] {
					continue
				}
				if ret, ok := b.Instrs[len(b.Instrs)-1].(*ssa.Return); ok && !isErrorReturn(fn, ret) {
					bad = c.Pos(posOf(ret))
				}
			}
		}
		if bad == "" {
			r.ok(key, c.Pos(fn.Pos()), FuncName(fn), what, "every nil return follows the call of the mpegts writer")
		} else {
			r.fail(key, c.Pos(fn.Pos()), FuncName(fn), what, "the return at "+bad+" reports success without the unit having been handed to the mpegts writer: the unit is lost although its Write succeeded (and the gates that were opened for it stay open)")
		}
	}
	r.Instances = n
	return r
}
