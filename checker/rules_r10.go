package main

// Tenth batch: rules written after the tenth round of seeded changes.

import (
	"fmt"
	"go/token"
	"go/types"
	"sort"
	"strings"

	"golang.org/x/tools/go/ssa"
)

func init() {
	registerRule("G4f", "the sticky target durations are refreshed at every rotation of the leading stream: in muxerStream.rotateSegments / rotateParts the call of targetDuration() / partTargetDuration() is not control dependent on a parameter of the function (a forced rotation can close the longest segment so far)", ruleG4f)
	registerRule("G9d", "the skip applies to every entry: in the segment loop of the fMP4 playlist generator every entry appended to the playlist (segment or gap) is control dependent on `index >= skipped`", ruleG9d)
	registerRule("V4l", "nothing a request dereferences is set to nil: a pointer or interface field of a muxer object that request code uses without a nil test is never assigned nil by writer code (open slots excepted)", ruleV4l)
	registerRule("L5c", "no stale open segment: in the segmenter a value loaded from an open slot (nextSegment / nextPart) is not used after a call that may replace that slot (createFirstSegment / rotateSegments / rotateParts)", ruleL5c)
	registerRule("F7r", "a byte range is requested whenever a length is given: the Range header of downloadSegment is control dependent on `length != nil` and on nothing about `start` (a missing start is 0)", ruleF7r)
	registerRule("T27", "the decoders read to the end of the input: the line loop of Media.Unmarshal / Multivariant.Unmarshal is left for the code after it only through the test that the input is exhausted", ruleT27)
	registerRule("V4m", "a payload decoder never succeeds with nothing: a function stored into clientTrackProcessorFMP4.decodePayload does not return a nil unit list together with a nil error (OnDataVP9 / Opus / MPEG-4 callbacks index the first unit)", ruleV4m)
	registerRule("T28", "presence is the only condition: in the marshal functions a tag or attribute of an optional (pointer) field is printed whenever the field is non-nil — no emission is control dependent on the value behind the pointer", ruleT28)
	registerRule("V3c", "every line loop can end: a loop of the playlist packages that calls ReadLine has an exit that is taken when the remaining input is empty", ruleV3c)
	registerRule("G11k", "codec de-duplication compares whole strings: the function that guards the CODECS append returns true only under `element == value` inside a loop over the list, and returns the result of no library call", ruleG11k)
	registerRule("G11l", "bandwidths are computed when the playlist is rendered: the values stored into the variant's Bandwidth / AverageBandwidth are results of a bandwidth() call made in the rendering function, not fields filled elsewhere", ruleG11l)
}

// ---------------------------------------------------------------------------

func ruleG4f(c *Ctx) *RuleResult {
	r := &RuleResult{Floor: 2, FloorWhat: "recomputations of the sticky target durations"}
	n := 0
	for _, mname := range []string{"rotateSegments", "rotateParts"} {
		fn := c.Method("", "muxerStream", mname)
		if fn == nil {
			r.undecided("muxerStream.%s not found", mname)
			continue
		}
		params := map[ssa.Value]bool{}
		for _, p := range fn.Params[1:] {
			if b, ok := p.Type().Underlying().(*types.Basic); ok && b.Kind() == types.Bool {
				params[p] = true
			}
		}
		for _, g := range append([]*ssa.Function{fn}, sameRecvCallees(fn)...) {
			allInstrs(g, func(in ssa.Instruction) {
				call, ok := in.(*ssa.Call)
				if !ok {
					return
				}
				cal := call.Call.StaticCallee()
				if cal == nil || !InRootPkg(cal) || (cal.Name() != "targetDuration" && cal.Name() != "partTargetDuration") {
					return
				}
				n++
				key := fmt.Sprintf("%s|%s#%d", FuncName(g), cal.Name(), n)
				what := "the sticky value is recomputed at every rotation of the leading stream"
				if g != fn {
					r.ok(key, c.Pos(call.Pos()), FuncName(g), what, "in a helper (its own conditions are judged there)")
					return
				}
				bad := ""
				for e := range controlEdges(g, call.Block()) {
					iff := g.Blocks[e.from].Instrs[len(g.Blocks[e.from].Instrs)-1].(*ssa.If)
					if pureDependsOn(iff.Cond, params, 0) {
						bad = "the recomputation is skipped depending on `" + condText(c, iff) + "`"
					}
				}
				// value-threaded form (`isLeading && !force` as one condition value)
				if bad == "" {
					for p := range params {
						if conds := ifsOnV(g, condIs(p)); len(conds) > 0 {
							for _, ci := range conds {
								for _, want := range []bool{true, false} {
									if onlyIf(g, call, []condIf{ci}, want) {
										bad = "the recomputation is skipped depending on the parameter " + p.Name()
									}
								}
							}
						}
					}
				}
				if bad == "" {
					r.ok(key, c.Pos(call.Pos()), FuncName(g), what, "depends on no parameter")
				} else {
					r.fail(key, c.Pos(call.Pos()), FuncName(g), what, bad+": a rotation that closes the longest segment so far under that condition is listed under the old, smaller EXT-X-TARGETDURATION")
				}
			})
		}
	}
	r.Instances = n
	return r
}

// ---------------------------------------------------------------------------

func ruleG9d(c *Ctx) *RuleResult {
	r := &RuleResult{Floor: 2, FloorWhat: "entries appended by the fMP4 playlist generator"}
	fn := c.Method("", "muxerStream", "generateMediaPlaylistFMP4")
	segF := c.Field("", "muxerStream", "segments")
	plSegF := c.fieldByQualifiedName(modPath+"/pkg/playlist", "Media", "Segments")
	skF := c.fieldByQualifiedName(modPath+"/pkg/playlist", "MediaSkip", "SkippedSegments")
	if fn == nil || segF == nil || plSegF == nil || skF == nil {
		r.undecided("generateMediaPlaylistFMP4 / muxerStream.segments / playlist.Media.Segments / MediaSkip.SkippedSegments not found")
		return r
	}
	// the value announced as SKIPPED-SEGMENTS
	var skipped ssa.Value
	for _, st := range storesToField(c, fn, skF) {
		skipped = stripConv(st.Val)
	}
	if skipped == nil {
		r.undecided("G9d: no store into MediaSkip.SkippedSegments in the generator")
		return r
	}
	isSkipped := func(v ssa.Value) bool {
		v = stripConv(v)
		if v == skipped {
			return true
		}
		if phi, ok := v.(*ssa.Phi); ok {
			for _, e := range phi.Edges {
				if stripConv(e) == skipped {
					return true
				}
			}
		}
		return false
	}
	// guards `i < skipped` on the range index over s.segments
	guards := ifsOnV(fn, func(v ssa.Value) bool {
		bo, ok := v.(*ssa.BinOp)
		if !ok {
			return false
		}
		switch bo.Op {
		case token.LSS, token.GEQ:
			if isR, over := rangeIndexOver(bo.X); isR && isSkipped(bo.Y) {
				f, _ := loadedField(over)
				return f == segF
			}
		case token.GTR, token.LEQ:
			if isR, over := rangeIndexOver(bo.Y); isR && isSkipped(bo.X) {
				f, _ := loadedField(over)
				return f == segF
			}
		}
		return false
	})
	// the loop may also start at `skipped`
	startsAtSkipped := false
	allInstrs(fn, func(in ssa.Instruction) {
		if ia, ok := in.(*ssa.IndexAddr); ok {
			if f, _ := loadedField(ia.X); f == segF {
				if phi, ok := ia.Index.(*ssa.Phi); ok {
					for _, e := range phi.Edges {
						if isSkipped(e) {
							startsAtSkipped = true
						}
					}
				}
			}
		}
	})
	n := 0
	for _, st := range storesToField(c, fn, plSegF) {
		if !inLoopBlock(fn, st.Block()) {
			continue
		}
		n++
		key := fmt.Sprintf("generateMediaPlaylistFMP4|entry#%d", n)
		what := "an entry is listed only if it is not among the skipped ones"
		var want []condWant
		for _, ci := range guards {
			bo := ci.Val.(*ssa.BinOp)
			// the outcome under which the entry is kept: index >= skipped
			keep := bo.Op == token.GEQ || bo.Op == token.LEQ
			want = append(want, condWant{ci, keep})
		}
		switch {
		case startsAtSkipped:
			r.ok(key, c.Pos(st.Pos()), FuncName(fn), what, "the loop starts at the skipped count")
		case len(want) > 0 && onlyIfAny(fn, st, want):
			r.ok(key, c.Pos(st.Pos()), FuncName(fn), what, "control dependent on index >= skipped")
		default:
			r.fail(key, c.Pos(st.Pos()), FuncName(fn), what, "this kind of entry is appended also when its index is below the announced SKIPPED-SEGMENTS: the delta update lists more entries than the full playlist minus the skipped ones, every media sequence number derived from it is shifted")
		}
	}
	r.Instances = n
	return r
}

// ---------------------------------------------------------------------------

func ruleV4l(c *Ctx) *RuleResult {
	r := &RuleResult{Floor: 0, FloorWhat: "nil stores into fields of muxer objects"}
	_, rset, _ := c.roleSets()
	slots, _ := c.slotFields()
	// fields that request code uses as a receiver / dereferences, and whether each such function tests them for nil
	type use struct {
		fn      *ssa.Function
		guarded bool
		pos     token.Pos
	}
	uses := map[*types.Var][]use{}
	var rfns []*ssa.Function
	for fn := range rset {
		if InRootPkg(fn) && fn.Blocks != nil && !isClientFunc(enclosingNamed(fn)) {
			rfns = append(rfns, fn)
		}
	}
	sort.Slice(rfns, func(i, j int) bool { return rfns[i].String() < rfns[j].String() })
	for _, fn := range rfns {
		tested := map[*types.Var]bool{}
		allInstrs(fn, func(in ssa.Instruction) {
			if bo, ok := in.(*ssa.BinOp); ok && (bo.Op == token.EQL || bo.Op == token.NEQ) {
				if k, isK := bo.Y.(*ssa.Const); isK && k.IsNil() {
					if f, _ := loadedField(bo.X); f != nil {
						tested[f] = true
					}
				}
			}
		})
		allInstrs(fn, func(in ssa.Instruction) {
			ld, ok := in.(*ssa.UnOp)
			if !ok || ld.Op != token.MUL {
				return
			}
			f, _ := fieldOfAddr(ld.X)
			if f == nil || f.Pkg() == nil || f.Pkg().Path() != modPath {
				return
			}
			switch f.Type().Underlying().(type) {
			case *types.Pointer, *types.Interface:
			default:
				return
			}
			deref := false
			for _, ref := range *ld.Referrers() {
				switch x := ref.(type) {
				case ssa.CallInstruction:
					if x.Common().IsInvoke() && x.Common().Value == ssa.Value(ld) {
						deref = true
					}
					if g := x.Common().StaticCallee(); g != nil && g.Signature.Recv() != nil && len(x.Common().Args) > 0 && x.Common().Args[0] == ssa.Value(ld) {
						deref = true
					}
				case *ssa.FieldAddr:
					if x.X == ssa.Value(ld) {
						deref = true
					}
				case *ssa.UnOp:
					if x.Op == token.MUL && x.X == ssa.Value(ld) {
						deref = true
					}
				}
			}
			if deref {
				uses[f] = append(uses[f], use{fn, tested[f], ld.Pos()})
			}
		})
	}
	n := 0
	var fns []*ssa.Function
	for _, fn := range c.Funcs {
		if InRootPkg(fn) && fn.Blocks != nil && !isClientFunc(enclosingNamed(fn)) {
			fns = append(fns, fn)
		}
	}
	sort.Slice(fns, func(i, j int) bool { return fns[i].String() < fns[j].String() })
	for _, fn := range fns {
		k := 0
		allInstrs(fn, func(in ssa.Instruction) {
			st, ok := in.(*ssa.Store)
			if !ok {
				return
			}
			kk, isK := st.Val.(*ssa.Const)
			if !isK || !kk.IsNil() {
				return
			}
			f, base := fieldOfAddr(st.Addr)
			if f == nil || slots[f] || len(uses[f]) == 0 {
				return
			}
			if c.isFreshValue(base, 0) {
				return
			}
			n++
			k++
			key := fmt.Sprintf("%s|nil %s#%d", FuncName(fn), f.Name(), k)
			what := "a field request code relies on keeps its object"
			bad := ""
			for _, u := range uses[f] {
				if !u.guarded {
					bad = FuncName(u.fn) + " uses it without a nil test at " + c.Pos(u.pos)
				}
			}
			if bad == "" {
				r.ok(key, c.Pos(st.Pos()), FuncName(fn), what, "every request-side use is preceded by a nil test")
			} else {
				r.fail(key, c.Pos(st.Pos()), FuncName(fn), what, c.fieldName(f)+" is set to nil, but "+bad+": a request that arrives afterwards (a late part request after Close, whose handler is still registered) panics — with the muxer mutex held when the handler locks by hand")
			}
		})
	}
	r.Instances = n
	return r
}

// ---------------------------------------------------------------------------

func ruleL5c(c *Ctx) *RuleResult {
	r := &RuleResult{Floor: 6, FloorWhat: "loads of an open slot in the segmenter"}
	slots, _ := c.slotFields()
	if len(slots) == 0 {
		r.undecided("no open slot inferred")
		return r
	}
	seg := c.NamedType("", "muxerSegmenter")
	if seg == nil {
		r.undecided("muxerSegmenter not found")
		return r
	}
	// calls that may replace a slot: callees whose transitive mod set contains it
	mayReplace := func(site ssa.CallInstruction, f *types.Var) bool {
		callees := c.calleesOf(site)
		if g := site.Common().StaticCallee(); g != nil {
			callees = append(callees, g)
		}
		for _, g := range callees {
			if g != nil && InRootPkg(g) && c.modSet(g)[f] {
				return true
			}
		}
		return false
	}
	n := 0
	var fns []*ssa.Function
	for _, fn := range c.Funcs {
		if fn.Blocks != nil && fn.Signature.Recv() != nil && namedOf(fn.Signature.Recv().Type()) == seg {
			fns = append(fns, fn)
		}
	}
	sort.Slice(fns, func(i, j int) bool { return fns[i].String() < fns[j].String() })
	for _, fn := range fns {
		k := 0
		allInstrs(fn, func(in ssa.Instruction) {
			ld, ok := in.(*ssa.UnOp)
			if !ok || ld.Op != token.MUL {
				return
			}
			f, _ := fieldOfAddr(ld.X)
			if f == nil || !slots[f] {
				return
			}
			n++
			k++
			key := fmt.Sprintf("%s|%s#%d", FuncName(fn), f.Name(), k)
			what := "the open " + f.Name() + " is looked up again after a call that may replace it"
			// forward search: (block, instruction index, carrier value, crossed a replacing call)
			type state struct {
				b       *ssa.BasicBlock
				i       int
				carrier ssa.Value
				crossed bool
			}
			type vkey struct {
				b       int
				carrier ssa.Value
				crossed bool
			}
			seen := map[vkey]bool{}
			var bad ssa.Instruction
			var badCall ssa.Instruction
			stack := []state{{ld.Block(), instrIndex(ld) + 1, ld, false}}
			lastCall := map[ssa.Value]ssa.Instruction{}
			for len(stack) > 0 && bad == nil {
				s := stack[len(stack)-1]
				stack = stack[:len(stack)-1]
				crossed := s.crossed
				carriers := []ssa.Value{s.carrier}
				isCarrier := func(v ssa.Value) bool {
					for _, x := range carriers {
						if x == v {
							return true
						}
					}
					return false
				}
				for i := s.i; i < len(s.b.Instrs) && bad == nil; i++ {
					x := s.b.Instrs[i]
					// derived values
					switch y := x.(type) {
					case *ssa.TypeAssert:
						if isCarrier(y.X) {
							carriers = append(carriers, y)
						}
						continue
					case *ssa.Extract:
						if isCarrier(y.Tuple) && y.Index == 0 {
							carriers = append(carriers, y)
						}
						continue
					case *ssa.ChangeType:
						if isCarrier(y.X) {
							carriers = append(carriers, y)
						}
						continue
					case *ssa.ChangeInterface:
						if isCarrier(y.X) {
							carriers = append(carriers, y)
						}
						continue
					case *ssa.MakeInterface:
						if isCarrier(y.X) {
							carriers = append(carriers, y)
						}
						continue
					}
					// uses
					uses := false
					for _, op := range x.Operands(nil) {
						if *op != nil && isCarrier(*op) {
							uses = true
						}
					}
					if uses && crossed {
						switch y := x.(type) {
						case *ssa.BinOp, *ssa.If:
							// comparisons are harmless
						case *ssa.Phi:
						default:
							_ = y
							bad = x
							badCall = lastCall[s.carrier]
						}
					}
					if ci, ok := x.(ssa.CallInstruction); ok && mayReplace(ci, f) {
						crossed = true
						lastCall[s.carrier] = x
					}
				}
				if bad != nil {
					break
				}
				for _, succ := range s.b.Succs {
					// φs of the successor fed by a carrier through this edge carry the value on
					pi := -1
					for j, p := range succ.Preds {
						if p == s.b {
							pi = j
						}
					}
					for _, cv := range carriers {
						// the carrier itself stays usable where its definition dominates
						if cvi, ok := cv.(ssa.Instruction); ok && cvi.Block().Dominates(succ) {
							vk := vkey{succ.Index, cv, crossed}
							if !seen[vk] {
								seen[vk] = true
								if crossed {
									lastCall[cv] = lastCall[s.carrier]
								}
								stack = append(stack, state{succ, 0, cv, crossed})
							}
						}
					}
					for _, x := range succ.Instrs {
						phi, ok := x.(*ssa.Phi)
						if !ok {
							break
						}
						if pi >= 0 && pi < len(phi.Edges) && isCarrier(phi.Edges[pi]) {
							vk := vkey{succ.Index, phi, crossed}
							if !seen[vk] {
								seen[vk] = true
								if crossed {
									lastCall[phi] = lastCall[s.carrier]
								}
								stack = append(stack, state{succ, 0, phi, crossed})
							}
						}
					}
				}
			}
			if bad == nil {
				r.ok(key, c.Pos(ld.Pos()), FuncName(fn), what, "no use of the loaded value after a replacing call")
			} else {
				via := ""
				if badCall != nil {
					via = " (after the call at " + c.Pos(badCall.Pos()) + ")"
				}
				r.fail(key, c.Pos(bad.Pos()), FuncName(fn), what, "the value loaded at "+c.Pos(ld.Pos())+" is used here"+via+": it is the segment that was just closed and published — the write goes into a listed object outside the lock its readers take")
			}
		})
	}
	r.Instances = n
	return r
}

// ---------------------------------------------------------------------------

func ruleF7r(c *Ctx) *RuleResult {
	r := &RuleResult{Floor: 1, FloorWhat: "Range headers added by the client"}
	fn := c.Method("", "clientStreamDownloader", "downloadSegment")
	if fn == nil {
		r.undecided("clientStreamDownloader.downloadSegment not found")
		return r
	}
	var start, length *ssa.Parameter
	for _, p := range fn.Params {
		switch strings.ToLower(p.Name()) {
		case "start", "byterangestart", "rangestart":
			start = p
		case "length", "byterangelength", "rangelength":
			length = p
		}
	}
	n := 0
	allInstrs(fn, func(in ssa.Instruction) {
		call, ok := in.(*ssa.Call)
		if !ok {
			return
		}
		g := call.Call.StaticCallee()
		if g == nil || g.Signature.Recv() == nil || !typeIs(g.Signature.Recv().Type(), "net/http", "Header") || (g.Name() != "Add" && g.Name() != "Set") || len(call.Call.Args) < 3 {
			return
		}
		if s, ok := constString(call.Call.Args[1]); !ok || s != "Range" {
			return
		}
		n++
		key := fmt.Sprintf("downloadSegment|range#%d", n)
		what := "the Range header is sent iff a length was given; a missing start means 0"
		if start == nil || length == nil {
			r.undecided("F7r: the start / length parameters of downloadSegment were not recognised by name")
			return
		}
		paramVal := func(p *ssa.Parameter) func(ssa.Value) bool {
			return func(v ssa.Value) bool {
				bo, ok := v.(*ssa.BinOp)
				if !ok || (bo.Op != token.EQL && bo.Op != token.NEQ) {
					return false
				}
				k, isK := bo.Y.(*ssa.Const)
				if !isK || !k.IsNil() {
					return false
				}
				x := stripConv(bo.X)
				if x == ssa.Value(p) {
					return true
				}
				// a parameter spilled into a cell (it is reassigned) or merged in a φ
				if u, ok := x.(*ssa.UnOp); ok && u.Op == token.MUL {
					if al, ok := u.X.(*ssa.Alloc); ok {
						for _, ref := range *al.Referrers() {
							if st, ok := ref.(*ssa.Store); ok && st.Val == ssa.Value(p) {
								return true
							}
						}
					}
				}
				if phi, ok := x.(*ssa.Phi); ok {
					for _, e := range phi.Edges {
						if e == ssa.Value(p) {
							return true
						}
					}
				}
				return false
			}
		}
		want := func(conds []condIf) []condWant {
			var out []condWant
			for _, ci := range conds {
				bo := ci.Val.(*ssa.BinOp)
				out = append(out, condWant{ci, bo.Op == token.NEQ}) // the outcome "non-nil"
			}
			return out
		}
		lenConds := want(ifsOnV(fn, paramVal(length)))
		startConds := want(ifsOnV(fn, paramVal(start)))
		switch {
		case len(lenConds) == 0 || !onlyIfAny(fn, call, lenConds):
			r.fail(key, c.Pos(call.Pos()), FuncName(fn), what, "the header is added without a test of the length: `*length` is read for a segment without EXT-X-BYTERANGE, or a segment with a range is requested whole")
		case len(startConds) > 0 && onlyIfAny(fn, call, startConds):
			r.fail(key, c.Pos(call.Pos()), FuncName(fn), what, "the header is added only when a start was given: `#EXT-X-BYTERANGE:<n>` without `@<o>` (start 0, or the end of the previous range) is requested without a Range header and the whole resource is downloaded")
		default:
			r.ok(key, c.Pos(call.Pos()), FuncName(fn), what, "depends on length != nil only")
		}
	})
	r.Instances = n
	return r
}

// ---------------------------------------------------------------------------

// loopOf returns the blocks of the innermost-or-not loop through block b (blocks that reach b and are reachable from it).
func loopBlocksThrough(fn *ssa.Function, b *ssa.BasicBlock) map[*ssa.BasicBlock]bool {
	out := map[*ssa.BasicBlock]bool{}
	fromB := reachableBlocks(fn, b.Index, nil, nil)
	inCycle := false
	for _, s := range b.Succs {
		if reachableBlocks(fn, s.Index, nil, nil)[b.Index] {
			inCycle = true
		}
	}
	if !inCycle {
		return out
	}
	for _, x := range fn.Blocks {
		if x == b || (fromB[x.Index] && reachableBlocks(fn, x.Index, nil, nil)[b.Index]) {
			out[x] = true
		}
	}
	return out
}

func isReadLineCall(v ssa.Value) *ssa.Call {
	call, ok := v.(*ssa.Call)
	if !ok {
		return nil
	}
	g := call.Call.StaticCallee()
	if g == nil || g.Name() != "ReadLine" || g.Pkg == nil || !strings.HasSuffix(g.Pkg.Pkg.Path(), "/pkg/playlist/primitives") {
		return nil
	}
	return call
}

// restEmptyTest: v is `rest == ""` / `len(rest) == 0` (or the negations) where rest derives from the second result of a
// ReadLine call (directly, or through the φ that carries the remaining input around the loop).
func restEmptyTest(v ssa.Value) bool {
	bo, ok := v.(*ssa.BinOp)
	if !ok {
		return false
	}
	isRest := func(x ssa.Value) bool {
		x = stripConv(x)
		seen := map[ssa.Value]bool{}
		var walk func(x ssa.Value, d int) bool
		walk = func(x ssa.Value, d int) bool {
			if x == nil || seen[x] || d > 4 {
				return false
			}
			seen[x] = true
			if ex, ok := x.(*ssa.Extract); ok && ex.Index == 1 && isReadLineCall(ex.Tuple) != nil {
				return true
			}
			if phi, ok := x.(*ssa.Phi); ok {
				for _, e := range phi.Edges {
					if walk(e, d+1) {
						return true
					}
				}
			}
			return false
		}
		return walk(x, 0)
	}
	switch bo.Op {
	case token.EQL, token.NEQ:
		if s, ok := constString(bo.Y); ok && s == "" && isRest(bo.X) {
			return true
		}
		if s, ok := constString(bo.X); ok && s == "" && isRest(bo.Y) {
			return true
		}
		if k, ok := constInt(bo.Y); ok && k == 0 {
			if x := lenOf(bo.X); x != nil && isRest(x) {
				return true
			}
		}
	}
	return false
}

func ruleV3c(c *Ctx) *RuleResult {
	r := &RuleResult{Floor: 2, FloorWhat: "loops that call ReadLine"}
	all, _ := c.playlistFuncs()
	sort.Slice(all, func(i, j int) bool { return all[i].String() < all[j].String() })
	n := 0
	for _, fn := range all {
		if fn.Blocks == nil {
			continue
		}
		done := map[*ssa.BasicBlock]bool{}
		allInstrs(fn, func(in ssa.Instruction) {
			call := isReadLineCall(valueOf(in))
			if call == nil || done[call.Block()] {
				return
			}
			loop := loopBlocksThrough(fn, call.Block())
			if len(loop) == 0 {
				return
			}
			for b := range loop {
				done[b] = true
			}
			n++
			key := fmt.Sprintf("%s|line-loop#%d", FuncName(fn), n)
			what := "the loop is left when the input is exhausted"
			okExit := false
			for b := range loop {
				iff, ok := b.Instrs[len(b.Instrs)-1].(*ssa.If)
				if !ok {
					continue
				}
				leaves := false
				for _, s := range b.Succs {
					if !loop[s] {
						leaves = true
					}
				}
				v, _ := stripBoolWrap(iff.Cond)
				if leaves && restEmptyTest(v) {
					okExit = true
				}
				// `line == "" && s == ""` compiled as two Ifs: the second one leaves
				if ji := joinOf(b); ji != nil && leaves {
					for _, e := range ji.phi.Edges {
						ev, _ := stripBoolWrap(e)
						if restEmptyTest(ev) {
							okExit = true
						}
					}
				}
			}
			if okExit {
				r.ok(key, c.Pos(call.Pos()), FuncName(fn), what, "an exit tests the remaining input for emptiness")
			} else {
				r.fail(key, c.Pos(call.Pos()), FuncName(fn), what, "no exit of the loop depends on the remaining input being empty: ReadLine(\"\") returns (\"\", \"\") for ever, the decoder spins on an input that ends inside the loop")
			}
		})
	}
	r.Instances = n
	return r
}

func valueOf(in ssa.Instruction) ssa.Value {
	v, _ := in.(ssa.Value)
	return v
}

func ruleT27(c *Ctx) *RuleResult {
	r := &RuleResult{Floor: 2, FloorWhat: "line loops of the two decoders"}
	n := 0
	for _, tn := range []string{"Media", "Multivariant"} {
		top := c.Method("pkg/playlist", tn, "Unmarshal")
		if top == nil {
			r.undecided("playlist.%s.Unmarshal not found", tn)
			continue
		}
		found := false
		for _, fn := range c.withLocalHelpers(top) {
			var call *ssa.Call
			allInstrs(fn, func(in ssa.Instruction) {
				if cc := isReadLineCall(valueOf(in)); cc != nil && len(loopBlocksThrough(fn, cc.Block())) > 0 && call == nil {
					call = cc
				}
			})
			if call == nil {
				continue
			}
			found = true
			n++
			loop := loopBlocksThrough(fn, call.Block())
			key := fmt.Sprintf("%s.Unmarshal|line-loop", tn)
			what := "the line loop is left for the code after it only when the input is exhausted"
			bad := ""
			for b := range loop {
				for si, s := range b.Succs {
					if loop[s] {
						continue
					}
					// an exit: does it lead to a success return (or to the code after the loop)?
					errorOnly := true
					reach := reachableBlocks(fn, s.Index, nil, nil)
					for _, x := range fn.Blocks {
						if !reach[x.Index] || loop[x] {
							continue
						}
						if ret, ok := x.Instrs[len(x.Instrs)-1].(*ssa.Return); ok && len(ret.Results) > 0 {
							if k, isK := retVal(ret, len(ret.Results)-1).(*ssa.Const); isK && k.IsNil() {
								errorOnly = false
							}
						}
					}
					if errorOnly {
						continue
					}
					iff, ok := b.Instrs[len(b.Instrs)-1].(*ssa.If)
					if !ok {
						continue // a break block: judged at the If that leads to it
					}
					v, _ := stripBoolWrap(iff.Cond)
					okCond := restEmptyTest(v)
					if ji := joinOf(b); ji != nil {
						for _, e := range ji.phi.Edges {
							ev, _ := stripBoolWrap(e)
							if restEmptyTest(ev) {
								okCond = true
							}
						}
					}
					_ = si
					if !okCond {
						bad = "the loop is also left on `" + condText(c, iff) + "`"
					}
				}
			}
			// exits through a block that only jumps out (break): the If that reaches it
			for b := range loop {
				iff, ok := b.Instrs[len(b.Instrs)-1].(*ssa.If)
				if !ok {
					continue
				}
				for _, s := range b.Succs {
					if loop[s] && len(s.Succs) == 1 && !loop[s.Succs[0]] && len(s.Instrs) == 1 {
						v, _ := stripBoolWrap(iff.Cond)
						if !restEmptyTest(v) {
							bad = "the loop is also left on `" + condText(c, iff) + "`"
						}
					}
				}
			}
			if bad == "" {
				r.ok(key, c.Pos(call.Pos()), FuncName(fn), what, "the only non-error exit tests the remaining input")
			} else {
				r.fail(key, c.Pos(call.Pos()), FuncName(fn), what, bad+": lines after that point are not decoded (RFC 8216 allows EXT-X-ENDLIST anywhere in the playlist), segments listed there are dropped and the client ends early")
			}
		}
		if !found {
			r.undecided("T27: no ReadLine loop found in %s.Unmarshal or its helpers", tn)
		}
	}
	r.Instances = n
	return r
}

// ---------------------------------------------------------------------------

func ruleV4m(c *Ctx) *RuleResult {
	r := &RuleResult{Floor: 3, FloorWhat: "payload decoders of the fMP4 track processor"}
	f := c.Field("", "clientTrackProcessorFMP4", "decodePayload")
	if f == nil {
		r.undecided("clientTrackProcessorFMP4.decodePayload not found")
		return r
	}
	n := 0
	seen := map[*ssa.Function]bool{}
	for _, fn := range c.clientFuncs() {
		for _, st := range storesToField(c, fn, f) {
			var g *ssa.Function
			switch x := stripConv(st.Val).(type) {
			case *ssa.MakeClosure:
				g = x.Fn.(*ssa.Function)
			case *ssa.Function:
				g = x
			}
			if g == nil {
				r.undecided("V4m: a value stored into decodePayload at %s is not a function literal or a named function", c.Pos(st.Pos()))
				continue
			}
			if seen[g] {
				continue
			}
			seen[g] = true
			n++
			key := fmt.Sprintf("%s|nil-units", FuncName(g))
			what := "success comes with at least the unit list the sample produced"
			bad := ""
			for _, b := range g.Blocks {
				ret, ok := b.Instrs[len(b.Instrs)-1].(*ssa.Return)
				if !ok || len(ret.Results) != 2 {
					continue
				}
				ek, isK := retVal(ret, 1).(*ssa.Const)
				if !isK || !ek.IsNil() {
					continue
				}
				if uk, isK := retVal(ret, 0).(*ssa.Const); isK && uk.IsNil() {
					bad = "returns (nil, nil) at " + c.Pos(posOf(ret))
				}
			}
			if bad == "" {
				r.ok(key, c.Pos(g.Pos()), FuncName(g), what, "no (nil, nil) return")
			} else {
				r.fail(key, c.Pos(g.Pos()), FuncName(g), what, bad+": the single-unit callbacks (`cb(pts, data[0])`) index the first unit, an empty sample from the server panics the client")
			}
		}
	}
	r.Instances = n
	return r
}

// ---------------------------------------------------------------------------

func ruleT28(c *Ctx) *RuleResult {
	r := &RuleResult{Floor: 10, FloorWhat: "tests of optional fields in the marshal functions"}
	all, _ := c.playlistFuncs()
	sort.Slice(all, func(i, j int) bool { return all[i].String() < all[j].String() })
	n := 0
	for _, fn := range all {
		if !inMarshal(fn) || fn.Blocks == nil {
			continue
		}
		k := 0
		for _, b := range fn.Blocks {
			iff, ok := b.Instrs[len(b.Instrs)-1].(*ssa.If)
			if !ok {
				continue
			}
			// conditions (and φ-merged sub-conditions) that look at an optional field
			var vals []ssa.Value
			v, _ := stripBoolWrap(iff.Cond)
			vals = append(vals, v)
			if ji := joinOf(b); ji != nil {
				for _, e := range ji.phi.Edges {
					ev, _ := stripBoolWrap(e)
					vals = append(vals, ev)
				}
			}
			for _, v := range vals {
				bo, ok := v.(*ssa.BinOp)
				if !ok {
					continue
				}
				// presence test: field != nil
				if kk, isK := bo.Y.(*ssa.Const); isK && kk.IsNil() {
					if f, _ := loadedField(bo.X); f != nil {
						if _, isPtr := f.Type().Underlying().(*types.Pointer); isPtr {
							n++
							k++
							r.ok(fmt.Sprintf("%s|present %s#%d", FuncName(fn), f.Name(), k), c.Pos(iff.Pos()), FuncName(fn), "an optional field is printed when it is present", "presence test")
						}
					}
					continue
				}
				// value test: *field <op> constant
				for _, pair := range [][2]ssa.Value{{bo.X, bo.Y}, {bo.Y, bo.X}} {
					u, ok := stripConv(pair[0]).(*ssa.UnOp)
					if !ok || u.Op != token.MUL {
						continue
					}
					f, _ := loadedField(u.X)
					if f == nil {
						continue
					}
					if _, isPtr := f.Type().Underlying().(*types.Pointer); !isPtr {
						continue
					}
					if _, isK := pair[1].(*ssa.Const); !isK {
						continue
					}
					n++
					k++
					r.fail(fmt.Sprintf("%s|value of %s#%d", FuncName(fn), f.Name(), k), c.Pos(iff.Pos()), FuncName(fn), "an optional field is printed when it is present",
						"the emission also depends on the value behind "+f.Name()+" (`"+condText(c, iff)+"`): a field that is present with that value is not printed and decodes as absent — Unmarshal(Marshal(p)) differs from p")
				}
			}
		}
	}
	r.Instances = n
	return r
}

// ---------------------------------------------------------------------------

func ruleG11k(c *Ctx) *RuleResult {
	r := &RuleResult{Floor: 1, FloorWhat: "codec de-duplication predicates"}
	pop := c.Method("", "muxerStream", "populateMultivariantPlaylist")
	codecsF := c.fieldByQualifiedName(modPath+"/pkg/playlist", "MultivariantVariant", "Codecs")
	if pop == nil || codecsF == nil {
		r.undecided("populateMultivariantPlaylist / MultivariantVariant.Codecs not found")
		return r
	}
	// boolean root-package functions called with a load of Codecs
	preds := map[*ssa.Function]bool{}
	for _, g := range append([]*ssa.Function{pop}, sameRecvCallees(pop)...) {
		allInstrs(g, func(in ssa.Instruction) {
			call, ok := in.(*ssa.Call)
			if !ok {
				return
			}
			h := call.Call.StaticCallee()
			if h == nil || !InRootPkg(h) || h.Blocks == nil || h.Signature.Results().Len() != 1 {
				return
			}
			if b, ok := h.Signature.Results().At(0).Type().Underlying().(*types.Basic); !ok || b.Kind() != types.Bool {
				return
			}
			for _, a := range call.Call.Args {
				if f, _ := loadedField(a); f == codecsF {
					preds[h] = true
				}
			}
		})
	}
	n := 0
	for h := range preds {
		n++
		key := FuncName(h) + "|equality"
		what := "a codec counts as listed only if an element equals it"
		bad := ""
		var slice, val ssa.Value
		for _, p := range h.Params {
			if _, ok := p.Type().Underlying().(*types.Slice); ok {
				slice = p
			} else if isStringType(p.Type()) {
				val = p
			}
		}
		for _, b := range h.Blocks {
			ret, ok := b.Instrs[len(b.Instrs)-1].(*ssa.Return)
			if !ok {
				continue
			}
			rv := retVal(ret, 0)
			if k, isK := constBool(rv); isK {
				if !k {
					continue
				}
				// return true: control dependent on element == value
				okEq := false
				for e := range controlEdges(h, b) {
					iff := h.Blocks[e.from].Instrs[len(h.Blocks[e.from].Instrs)-1].(*ssa.If)
					bo, ok := iff.Cond.(*ssa.BinOp)
					if !ok || bo.Op != token.EQL || h.Blocks[e.from].Succs[0].Index != e.to {
						continue
					}
					for _, pair := range [][2]ssa.Value{{bo.X, bo.Y}, {bo.Y, bo.X}} {
						if pair[1] != val {
							continue
						}
						if u, ok := pair[0].(*ssa.UnOp); ok && u.Op == token.MUL {
							if ia, ok := u.X.(*ssa.IndexAddr); ok && ia.X == slice {
								okEq = true
							}
						}
					}
				}
				if !okEq {
					bad = "a `return true` is not controlled by `element == value`"
				}
				continue
			}
			if call, ok := rv.(*ssa.Call); ok {
				name := "a function value"
				if g := call.Call.StaticCallee(); g != nil {
					name = FuncName(g)
					if isFuncNamed(g, "slices", "Contains") {
						continue
					}
				}
				bad = "the result of " + name + " is returned"
			} else {
				bad = "the result is computed in a form the rule does not know"
			}
		}
		if bad == "" {
			r.ok(key, c.Pos(h.Pos()), FuncName(h), what, "whole-string equality on the elements")
		} else {
			r.fail(key, c.Pos(h.Pos()), FuncName(h), what, bad+": a codec string that is contained in one already listed (`mp4a.40.2` in `mp4a.40.29`) is taken for a duplicate and left out of CODECS")
		}
	}
	r.Instances = n
	return r
}

// ---------------------------------------------------------------------------

func ruleG11l(c *Ctx) *RuleResult {
	r := &RuleResult{Floor: 2, FloorWhat: "stores into the variant's bandwidth attributes"}
	bwF := c.fieldByQualifiedName(modPath+"/pkg/playlist", "MultivariantVariant", "Bandwidth")
	abwF := c.fieldByQualifiedName(modPath+"/pkg/playlist", "MultivariantVariant", "AverageBandwidth")
	bw := c.Func("", "bandwidth")
	if bwF == nil || abwF == nil || bw == nil {
		r.undecided("MultivariantVariant.Bandwidth / AverageBandwidth / bandwidth() not found")
		return r
	}
	n := 0
	var fns []*ssa.Function
	for _, fn := range c.Funcs {
		if InRootPkg(fn) && fn.Blocks != nil {
			fns = append(fns, fn)
		}
	}
	sort.Slice(fns, func(i, j int) bool { return fns[i].String() < fns[j].String() })
	var fromCall func(v ssa.Value, fn *ssa.Function, depth int) string // "" ok, else reason
	fromCall = func(v ssa.Value, fn *ssa.Function, depth int) string {
		v = stripConv(v)
		if depth > 4 {
			return "?"
		}
		switch x := v.(type) {
		case *ssa.Extract:
			if call, ok := x.Tuple.(*ssa.Call); ok && call.Call.StaticCallee() == bw {
				return ""
			}
		case *ssa.Alloc:
			// &averageBandwidth: the cell's stores
			res := "?"
			for _, ref := range *x.Referrers() {
				if st, ok := ref.(*ssa.Store); ok && st.Addr == ssa.Value(x) {
					res = fromCall(st.Val, fn, depth+1)
				}
			}
			return res
		case *ssa.Field:
			// a field of the struct bandwidth() returned
			if call, ok := x.X.(*ssa.Call); ok && call.Call.StaticCallee() == bw {
				return ""
			}
		case *ssa.FieldAddr:
			// &stats.average: a field of a local that holds the result of bandwidth()
			if al, ok := rootOf(x.X).(*ssa.Alloc); ok {
				return fromCall(al, fn, depth+1)
			}
		case *ssa.Call:
			if x.Call.StaticCallee() == bw {
				return ""
			}
		case *ssa.UnOp:
			if x.Op == token.MUL {
				if f, base := fieldOfAddr(x.X); f != nil {
					if al, ok := rootOf(base).(*ssa.Alloc); ok && fromCall(al, fn, depth+1) == "" {
						return ""
					}
					if call, ok := stripConv(base).(*ssa.Call); ok && call.Call.StaticCallee() == bw {
						return ""
					}
					return "the value is read from " + f.Name() + ", filled elsewhere"
				}
				if al, ok := x.X.(*ssa.Alloc); ok {
					return fromCall(al, fn, depth+1)
				}
			}
		case *ssa.Parameter:
			// judged at the call sites of the rendering helper
			return "param"
		}
		return "?"
	}
	for _, fn := range fns {
		for _, f := range []*types.Var{bwF, abwF} {
			for _, st := range storesToField(c, fn, f) {
				n++
				key := fmt.Sprintf("%s|%s#%d", FuncName(fn), f.Name(), n)
				what := "the announced bit rates describe the segments listed at the moment of the request"
				switch w := fromCall(st.Val, fn, 0); w {
				case "":
					r.ok(key, c.Pos(st.Pos()), FuncName(fn), what, "a result of bandwidth() called in the rendering function")
				case "?", "param":
					r.undecided("G11l: the value stored into %s at %s has an origin the rule does not know", f.Name(), c.Pos(st.Pos()))
				default:
					r.fail(key, c.Pos(st.Pos()), FuncName(fn), what, w+": after a rotation that published a segment and then failed, the multivariant playlist announces the bit rates of the previous window")
				}
			}
		}
	}
	r.Instances = n
	return r
}

// ---------------------------------------------------------------------------

func init() {
	registerRule("P3g", "requests are routed through the table that registration and removal maintain: every field of muxerServer that handle() reads (locks aside) is also written by registerPath and by unregisterPath, directly or through a helper both call", ruleP3g)
	registerRule("F51", "container timestamps do not pass through time.Duration: the int64 timestamps handed to the MPEG-TS writer derive from the writer function's tick parameters by one multiplyAndDivide, never from a Duration (ticks → ns → 90 kHz truncates twice)", ruleF51)
}

func ruleP3g(c *Ctx) *RuleResult {
	r := &RuleResult{Floor: 1, FloorWhat: "table fields read by muxerServer.handle"}
	handle := c.Method("", "muxerServer", "handle")
	reg := c.pathTableFn("register")
	unreg := c.pathTableFn("unregister")
	if handle == nil || reg == nil || unreg == nil {
		r.undecided("muxerServer.handle / registerPath / unregisterPath not found")
		return r
	}
	fieldsOf := func(fn *ssa.Function, writesOnly bool) map[*types.Var]bool {
		out := map[*types.Var]bool{}
		for _, g := range append([]*ssa.Function{fn}, sameRecvCallees(fn)...) {
			allInstrs(g, func(in ssa.Instruction) {
				fa, ok := in.(*ssa.FieldAddr)
				if !ok {
					return
				}
				f, _ := fieldOfAddr(fa)
				if f == nil || c.fieldOwner(f) != "muxerServer" {
					return
				}
				if n := namedOf(f.Type()); n != nil && n.Obj().Pkg() != nil && n.Obj().Pkg().Path() == "sync" {
					return
				}
				if !writesOnly {
					out[f] = true
					return
				}
				// written: stored to, map-updated / deleted through a load of it, or handed to a method by address
				for _, ref := range *fa.Referrers() {
					switch x := ref.(type) {
					case *ssa.Store:
						if x.Addr == ssa.Value(fa) {
							out[f] = true
						}
					case *ssa.UnOp:
						for _, r2 := range *x.Referrers() {
							switch y := r2.(type) {
							case *ssa.MapUpdate:
								out[f] = true
							case *ssa.Call:
								if bi, ok := y.Call.Value.(*ssa.Builtin); ok && bi.Name() == "delete" {
									out[f] = true
								}
							}
						}
					case *ssa.Call:
						if g := x.Call.StaticCallee(); g != nil && (strings.HasPrefix(g.Name(), "Store") || strings.HasPrefix(g.Name(), "Swap") || strings.HasPrefix(g.Name(), "CompareAndSwap")) {
							out[f] = true
						}
					}
				}
			})
		}
		return out
	}
	read := fieldsOf(handle, false)
	wReg := fieldsOf(reg, true)
	wUnreg := fieldsOf(unreg, true)
	n := 0
	var names []string
	for f := range read {
		names = append(names, f.Name())
	}
	sort.Strings(names)
	for _, name := range names {
		var f *types.Var
		for x := range read {
			if x.Name() == name {
				f = x
			}
		}
		n++
		key := "muxerServer.handle|routes through " + name
		what := "the table a request is routed through reflects registrations and removals at once"
		switch {
		case !wReg[f]:
			r.fail(key, c.Pos(handle.Pos()), FuncName(handle), what, "registerPath does not update "+name+": a published URI is not served")
		case !wUnreg[f]:
			r.fail(key, c.Pos(handle.Pos()), FuncName(handle), what, "unregisterPath does not update "+name+": a URI that has left the window keeps being served until the next registration")
		default:
			r.ok(key, c.Pos(handle.Pos()), FuncName(handle), what, "updated by both")
		}
	}
	r.Instances = n
	return r
}

func ruleF51(c *Ctx) *RuleResult {
	r := &RuleResult{Floor: 2, FloorWhat: "timestamps handed to the MPEG-TS writer"}
	n := 0
	var fns []*ssa.Function
	for _, fn := range c.Funcs {
		if InRootPkg(fn) && fn.Blocks != nil && !isClientFunc(enclosingNamed(fn)) {
			fns = append(fns, fn)
		}
	}
	sort.Slice(fns, func(i, j int) bool { return fns[i].String() < fns[j].String() })
	isDuration := func(t types.Type) bool { return typeIs(t, "time", "Duration") }
	for _, fn := range fns {
		k := 0
		allInstrs(fn, func(in ssa.Instruction) {
			call, ok := in.(*ssa.Call)
			if !ok {
				return
			}
			g := call.Call.StaticCallee()
			if g == nil || g.Pkg == nil || !strings.Contains(g.Pkg.Pkg.Path(), "mpegts") || g.Signature.Recv() == nil || !strings.HasPrefix(g.Name(), "Write") {
				return
			}
			if nt := namedOf(g.Signature.Recv().Type()); nt == nil || nt.Obj().Name() != "Writer" {
				return
			}
			for ai, a := range call.Call.Args {
				b, ok := a.Type().Underlying().(*types.Basic)
				if !ok || b.Kind() != types.Int64 {
					continue
				}
				n++
				k++
				key := fmt.Sprintf("%s|%s arg %d#%d", FuncName(fn), g.Name(), ai, k)
				what := "the 90 kHz timestamp is computed from the written ticks in one step"
				bad := ""
				seen := map[ssa.Value]bool{}
				var walk func(v ssa.Value, d int)
				walk = func(v ssa.Value, d int) {
					if v == nil || seen[v] || d > 8 || bad != "" {
						return
					}
					seen[v] = true
					if isDuration(v.Type()) {
						bad = "the value passes through a time.Duration (" + v.Name() + ")"
						return
					}
					switch x := v.(type) {
					case *ssa.Call:
						for _, aa := range x.Call.Args {
							walk(aa, d+1)
						}
					case *ssa.Convert:
						walk(x.X, d+1)
					case *ssa.ChangeType:
						walk(x.X, d+1)
					case *ssa.BinOp:
						walk(x.X, d+1)
						walk(x.Y, d+1)
					case *ssa.Phi:
						for _, e := range x.Edges {
							walk(e, d+1)
						}
					}
				}
				walk(a, 0)
				if bad == "" {
					r.ok(key, c.Pos(call.Pos()), FuncName(fn), what, "no Duration on the way")
				} else {
					r.fail(key, c.Pos(call.Pos()), FuncName(fn), what, bad+": ticks → nanoseconds → 90 kHz truncates twice, a timestamp that converts exactly to 90 kHz but not to nanoseconds comes out one tick short (every 49th AAC frame at 44.1 kHz)")
				}
			}
		})
	}
	r.Instances = n
	return r
}

// pureDependsOn: v is computed from a root by negation, comparison, arithmetic, conversion or φ only (not through a call:
// the error of a call that merely receives the parameter does not "depend" on it in the sense of a guard).
func pureDependsOn(v ssa.Value, roots map[ssa.Value]bool, depth int) bool {
	if v == nil || depth > 8 {
		return false
	}
	if roots[v] {
		return true
	}
	switch x := v.(type) {
	case *ssa.UnOp:
		if x.Op == token.NOT || x.Op == token.SUB {
			return pureDependsOn(x.X, roots, depth+1)
		}
	case *ssa.BinOp:
		return pureDependsOn(x.X, roots, depth+1) || pureDependsOn(x.Y, roots, depth+1)
	case *ssa.Convert:
		return pureDependsOn(x.X, roots, depth+1)
	case *ssa.ChangeType:
		return pureDependsOn(x.X, roots, depth+1)
	case *ssa.Phi:
		for _, e := range x.Edges {
			if pureDependsOn(e, roots, depth+1) {
				return true
			}
		}
	}
	return false
}

// ---------------------------------------------------------------------------

func init() {
	registerRule("F52", "the 33-bit unwrap has memory: clientTimeConvMPEGTS.convert derives its result from its parameter through a call on (or a store into) state of the converter — a pure function of (value, origin) cannot follow a stream for more than half the 33-bit range", ruleF52)
	registerRule("F40b", "the leading-track pickers know every video codec: a picker that recognises video tracks by a set of types (instead of the codec's own IsVideo()) lists every type of the client's codec table whose IsVideo() returns true", ruleF40b)
}

func ruleF52(c *Ctx) *RuleResult {
	r := &RuleResult{Floor: 1, FloorWhat: "MPEG-TS timestamp conversions"}
	fn := c.Method("", "clientTimeConvMPEGTS", "convert")
	if fn == nil {
		r.undecided("clientTimeConvMPEGTS.convert not found")
		return r
	}
	r.Instances = 1
	key := "clientTimeConvMPEGTS.convert|stateful"
	what := "timestamps are unwrapped relative to the previous one (state), not to the origin alone"
	stateful := false
	for _, g := range append([]*ssa.Function{fn}, sameRecvCallees(fn)...) {
		allInstrs(g, func(in ssa.Instruction) {
			switch x := in.(type) {
			case *ssa.Store:
				if f, _ := fieldOfAddr(x.Addr); f != nil && c.fieldOwner(f) == "clientTimeConvMPEGTS" {
					stateful = true
				}
			case *ssa.Call:
				// a method of an object held in a field of the converter, fed with the parameter
				if cal := x.Call.StaticCallee(); cal != nil && cal.Signature.Recv() != nil && len(x.Call.Args) >= 2 {
					if f, _ := loadedField(x.Call.Args[0]); f != nil && c.fieldOwner(f) == "clientTimeConvMPEGTS" {
						if n := namedOf(f.Type()); n == nil || n.Obj().Pkg() == nil || n.Obj().Pkg().Path() != "sync" {
							stateful = true
						}
					}
				}
			}
		})
	}
	if stateful {
		r.ok(key, c.Pos(fn.Pos()), FuncName(fn), what, "the conversion goes through state of the converter")
	} else {
		r.fail(key, c.Pos(fn.Pos()), FuncName(fn), what, "convert is a pure function of the value and the origin: once the stream is 2^32 ticks (13 h 15 min) past its origin every timestamp converts to a negative time and the units are dropped")
	}
	return r
}

func ruleF40b(c *Ctx) *RuleResult {
	r := &RuleResult{Floor: 1, FloorWhat: "leading-track pickers of the client"}
	from := c.Func("pkg/codecs", "FromFMP4")
	n := 0
	for _, name := range []string{"fmp4PickLeadingTrack"} {
		fn := c.Func("", name)
		if fn == nil {
			r.undecided("%s not found", name)
			continue
		}
		n++
		key := name + "|video-set"
		what := "every video codec the client supports is recognised as video by the picker"
		usesIsVideo := false
		set := map[string]bool{}
		var ifaceT types.Type
		allInstrs(fn, func(in ssa.Instruction) {
			switch x := in.(type) {
			case *ssa.Call:
				if x.Call.IsInvoke() && x.Call.Method.Name() == "IsVideo" {
					usesIsVideo = true
				}
			case *ssa.TypeAssert:
				if _, isIface := x.X.Type().Underlying().(*types.Interface); isIface {
					set[typeKey(x.AssertedType)] = true
					ifaceT = x.X.Type()
				}
			}
		})
		if usesIsVideo {
			r.ok(key, c.Pos(fn.Pos()), FuncName(fn), what, "decided by the codec's IsVideo()")
			continue
		}
		if len(set) == 0 || from == nil || ifaceT == nil {
			r.undecided("F40b: %s recognises video tracks in a form not known to the rule", name)
			continue
		}
		// the types of the client's table (FromFMP4) whose IsVideo() returns true
		var missing []string
		allInstrs(from, func(in ssa.Instruction) {
			ta, ok := in.(*ssa.TypeAssert)
			if !ok || !types.Identical(ta.X.Type(), ifaceT) {
				return
			}
			ms := c.Prog.MethodSets.MethodSet(ta.AssertedType)
			sel := ms.Lookup(nil, "IsVideo")
			if sel == nil {
				return
			}
			m := c.Prog.MethodValue(sel)
			if m == nil || m.Blocks == nil {
				return
			}
			isVideo := returnsTrue(m, 0)
			if isVideo && !set[typeKey(ta.AssertedType)] {
				missing = append(missing, types.TypeString(ta.AssertedType, func(p *types.Package) string { return p.Name() }))
			}
		})
		if len(missing) == 0 {
			r.ok(key, c.Pos(fn.Pos()), FuncName(fn), what, "the listed types cover the video types of the codec table")
		} else {
			sort.Strings(missing)
			r.fail(key, c.Pos(fn.Pos()), FuncName(fn), what, "not recognised as video: "+strings.Join(missing, ", ")+" — with an audio track listed first the audio track becomes the leading one, the first video frames get a negative time and are dropped")
		}
	}
	r.Instances = n
	return r
}

// returnsTrue: some return of fn yields the constant true (followed through the pointer-receiver wrapper of a
// value method).
func returnsTrue(fn *ssa.Function, depth int) bool {
	if fn == nil || fn.Blocks == nil || depth > 2 {
		return false
	}
	for _, b := range fn.Blocks {
		ret, ok := b.Instrs[len(b.Instrs)-1].(*ssa.Return)
		if !ok || len(ret.Results) != 1 {
			continue
		}
		v := retVal(ret, 0)
		if k, isK := constBool(v); isK && k {
			return true
		}
		if call, ok := v.(*ssa.Call); ok && returnsTrue(call.Call.StaticCallee(), depth+1) {
			return true
		}
	}
	return false
}
