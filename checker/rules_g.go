package main

import (
	"fmt"
	"go/token"
	"go/types"
	"strings"

	"golang.org/x/tools/go/ssa"
)

func init() {
	registerRule("G1", "rotation guard: every segment rotation requested by the segmenter is control dependent on the random-access flag (audio-only MPEG-TS: on the AU count) and on (parameters changed or `elapsed - startDTS >= segmentMinDuration`, compared in the Duration domain on the open segment's own start)", ruleG1)
	registerRule("T6", "sibling video writers: each of the four writers raises the pending-parameter flag, clears it only at a random-access unit that consumes it, and forwards a unit only after the first random-access unit", ruleT6)
	registerRule("G2", "size guard: a unit is buffered / written only if `segment size so far + unit size > segmentMaxSize` was false, the accumulator is a field of the segment (not of a part) and is increased on the same path", ruleG2)
	registerRule("G3", "counters: nextSegmentID / nextPartID only ever become old+1, unconditionally at the top of their rotate function; segmentDeleteCount becomes old+1 exactly where the window head is dropped; MEDIA-SEQUENCE is that counter and a segment's id is the segment counter at creation", ruleG3)
	registerRule("G4", "monotone target duration: every store to a stream's target duration is a copy of the leading stream's value or is control dependent on `old == 0` or `new > old`", ruleG4)
	registerRule("G5", "client delivery guard: the user callback is invoked from handleData only, and only if `pts < 0` was false", ruleG5)
	registerRule("G6", "rounding direction: targetDuration() converts through math.Round (or Ceil), partTargetDuration() through math.Ceil", ruleG6)
	registerRule("G7", "roll-over reaches the open segment: in the part-availability predicate the path that rewrites (segment, part) to (segment+1, 0) can reach the test against the open segment's parts", ruleG7)
	registerRule("G8", "window arithmetic: every `(len(X) - i) <= k` in the playlist generator uses the index of a range over the same X, and k is 2 (parts and date-times only for the last two segments)", ruleG8)
}

// condWant: like condIf but with its own wanted outcome.
type condWant struct {
	ci   condIf
	want bool
}

// onlyIfAny: target executes only if at least one condition took its wanted outcome.
func onlyIfAny(fn *ssa.Function, target ssa.Instruction, conds []condWant) bool {
	cut := map[edge]bool{}
	for _, cw := range conds {
		cut[cw.ci.edgeWhen(cw.want)] = true
	}
	return !reachableBlocks(fn, 0, cut, nil)[target.Block().Index]
}

func wantAll(cs []condIf, want bool) []condWant {
	var out []condWant
	for _, c := range cs {
		out = append(out, condWant{c, want})
	}
	return out
}

// segmenterInfo collects the anchors shared by G1/T6/F5.
type segmenterInfo struct {
	writeSample *ssa.Function // (*muxerSegmenter).fmp4WriteSample
	raIdx       int           // parameter index of the random-access flag
	pcIdx       int           // parameter index of the params-changed flag
	video       []*ssa.Function
	audio       []*ssa.Function
	problems    []string
}

func (c *Ctx) segmenter() *segmenterInfo {
	if v, ok := c.cache["segmenter"]; ok {
		return v.(*segmenterInfo)
	}
	si := &segmenterInfo{raIdx: -1, pcIdx: -1}
	c.cache["segmenter"] = si
	si.writeSample = c.Method("", "muxerSegmenter", "fmp4WriteSample")
	if si.writeSample == nil {
		si.problems = append(si.problems, "(*muxerSegmenter).fmp4WriteSample not found")
		return si
	}
	// bool parameters: the one all constant call-site arguments of which are true is the random-access
	// flag (audio writers pass true), the one always false at those sites is params-changed
	var boolIdx []int
	for i, p := range si.writeSample.Params {
		if b, ok := p.Type().Underlying().(*types.Basic); ok && b.Kind() == types.Bool {
			boolIdx = append(boolIdx, i)
		}
	}
	constAt := map[int][]bool{}
	for _, e := range c.callersOf(si.writeSample) {
		if e.Site == nil {
			continue
		}
		caller := e.Caller.Func
		isConstCall := true
		for _, i := range boolIdx {
			if _, ok := constBool(e.Site.Common().Args[i]); !ok {
				isConstCall = false
			}
		}
		if isConstCall {
			si.audio = appendUnique(si.audio, caller)
			for _, i := range boolIdx {
				b, _ := constBool(e.Site.Common().Args[i])
				constAt[i] = append(constAt[i], b)
			}
		} else {
			si.video = appendUnique(si.video, caller)
		}
	}
	// a thin wrapper that passes the constants on behalf of the audio writers (`fmp4WriteAudioSample(track, sample)`)
	// stands for its callers
	for changed := true; changed; {
		changed = false
		for idx, w := range si.audio {
			if len(w.Blocks) != 1 {
				continue
			}
			forwards := true
			ncalls := 0
			allInstrs(w, func(in ssa.Instruction) {
				if call, ok := in.(*ssa.Call); ok {
					ncalls++
					if call.Call.StaticCallee() != si.writeSample {
						forwards = false
					}
				}
			})
			if !forwards || ncalls != 1 {
				continue
			}
			var callers []*ssa.Function
			for _, e := range c.callersOf(w) {
				if e.Site != nil {
					callers = appendUnique(callers, e.Caller.Func)
				}
			}
			if len(callers) == 0 {
				continue
			}
			si.audio = append(si.audio[:idx:idx], si.audio[idx+1:]...)
			for _, cf := range callers {
				si.audio = appendUnique(si.audio, cf)
			}
			changed = true
			break
		}
	}
	for _, i := range boolIdx {
		allT, allF := len(constAt[i]) > 0, len(constAt[i]) > 0
		for _, b := range constAt[i] {
			if b {
				allF = false
			} else {
				allT = false
			}
		}
		if allT {
			si.raIdx = i
		}
		if allF {
			si.pcIdx = i
		}
	}
	if si.raIdx < 0 || si.pcIdx < 0 {
		si.problems = append(si.problems, "cannot identify the random-access / params-changed parameters of fmp4WriteSample from the audio writers' constant arguments")
	}
	if len(si.video) < 4 {
		si.problems = append(si.problems, fmt.Sprintf("expected 4 video writers calling fmp4WriteSample with a computed random-access flag, found %d", len(si.video)))
	}
	return si
}

func appendUnique(l []*ssa.Function, f *ssa.Function) []*ssa.Function {
	for _, x := range l {
		if x == f {
			return l
		}
	}
	return append(l, f)
}

// flagsIn returns the random-access and params-changed values of a segmenter function:
// its own parameters (fmp4WriteSample) or the arguments it passes to fmp4WriteSample.
func (si *segmenterInfo) flagsIn(fn *ssa.Function) (ra, pc ssa.Value) {
	if fn == si.writeSample {
		return fn.Params[si.raIdx], fn.Params[si.pcIdx]
	}
	allInstrs(fn, func(in ssa.Instruction) {
		if call, ok := in.(*ssa.Call); ok && call.Call.StaticCallee() == si.writeSample {
			ra, pc = call.Call.Args[si.raIdx], call.Call.Args[si.pcIdx]
		}
	})
	if ra != nil || si.writeSample == nil {
		return
	}
	// a phase split off the sample writer: a function that the sample writer calls with its own two flags
	allInstrs(si.writeSample, func(in ssa.Instruction) {
		call, ok := in.(*ssa.Call)
		if !ok || call.Call.StaticCallee() != fn {
			return
		}
		for k, a := range call.Call.Args {
			if k >= len(fn.Params) {
				break
			}
			if a == ssa.Value(si.writeSample.Params[si.raIdx]) {
				ra = fn.Params[k]
			}
			if a == ssa.Value(si.writeSample.Params[si.pcIdx]) {
				pc = fn.Params[k]
			}
		}
	})
	return
}

func condIs(v ssa.Value) func(ssa.Value) bool {
	return func(x ssa.Value) bool { return v != nil && x == v }
}

func ruleG1(c *Ctx) *RuleResult {
	r := &RuleResult{Floor: 3, FloorWhat: "rotateSegments call sites in the segmenter"}
	si := c.segmenter()
	for _, p := range si.problems {
		r.undecided("%s", p)
	}
	if len(si.problems) > 0 {
		return r
	}
	slots, _ := c.slotFields()
	minDur := c.Field("", "muxerSegmenter", "segmentMinDuration")
	auCount := c.Field("", "muxerSegmentMPEGTS", "audioAUCount")
	minAU, okAU := c.rootConstInt("mpegtsSegmentMinAUCount")
	if minDur == nil || auCount == nil || !okAU {
		r.undecided("segmentMinDuration / audioAUCount / mpegtsSegmentMinAUCount not found")
		return r
	}
	seg := c.NamedType("", "muxerSegmenter")
	n := 0
	for _, fn := range c.Funcs {
		if fn.Signature.Recv() == nil || namedOf(fn.Signature.Recv().Type()) != seg {
			continue
		}
		cnt := 0
		allInstrs(fn, func(in ssa.Instruction) {
			call, ok := in.(*ssa.Call)
			if !ok || !call.Call.IsInvoke() || call.Call.Method.Name() != "rotateSegments" {
				return
			}
			n++
			cnt++
			base := fmt.Sprintf("%s|rotateSegments#%d", FuncName(fn), cnt)
			pos := c.Pos(call.Pos())
			ra, pc := si.flagsIn(fn)
			// strict duration comparison: (T - startDTS(open segment)) >= segmentMinDuration
			isStartOfOpen := func(v ssa.Value) bool {
				f, b := loadedField(v)
				if f == nil || f.Name() != "startDTS" {
					return false
				}
				sf, _ := loadedField(stripAsserts(b))
				return sf != nil && slots[sf]
			}
			var loose []string
			durConds := ifsOnV(fn, func(v ssa.Value) bool {
				bo, ok := v.(*ssa.BinOp)
				if !ok || (bo.Op != token.GEQ && bo.Op != token.LSS) {
					return false
				}
				if f, _ := loadedField(bo.Y); f != minDur {
					// a comparison that involves the minimum duration in some other way
					if mentionsField(bo, minDur, 0) {
						loose = append(loose, bo.String())
					}
					return false
				}
				sub, ok := bo.X.(*ssa.BinOp)
				if !ok || sub.Op != token.SUB || !isStartOfOpen(sub.Y) {
					loose = append(loose, bo.String())
					return false
				}
				return true
			})
			var durWant []condWant
			for _, ci := range durConds {
				bo := ci.Val.(*ssa.BinOp)
				durWant = append(durWant, condWant{ci, bo.Op == token.GEQ})
			}
			if ra != nil {
				if _, isConst := constBool(ra); isConst {
					ra = nil
				}
			}
			if ra != nil {
				raConds := ifsOnV(fn, condIs(ra))
				if len(raConds) > 0 && onlyIf(fn, call, raConds, true) {
					r.ok(base+"|random-access", pos, FuncName(fn), "a rotation is requested only at a random-access unit", "control dependent on the random-access flag")
				} else {
					r.fail(base+"|random-access", pos, FuncName(fn), "a rotation is requested only at a random-access unit", "the call is reachable when the random-access flag is false: the new segment would not start with a key frame")
				}
				var due []condWant
				if pc != nil {
					due = append(due, wantAll(ifsOnV(fn, condIs(pc)), true)...)
				}
				due = append(due, durWant...)
				switch {
				case len(durWant) == 0:
					why := "no comparison of the form `(t - openSegment.startDTS) >= segmentMinDuration` guards the call"
					if len(loose) > 0 {
						why += "; the minimum duration is compared in another form (" + strings.Join(loose, "; ") + "): converting either side changes the instant at which the cut becomes due"
					}
					r.fail(base+"|due", pos, FuncName(fn), "a rotation is requested only when parameters changed or the open segment reached SegmentMinDuration (>=, in the Duration domain, against the open segment's own start)", why)
				case onlyIfAny(fn, call, due):
					r.ok(base+"|due", pos, FuncName(fn), "a rotation is requested only when parameters changed or the open segment reached SegmentMinDuration (>=, in the Duration domain, against the open segment's own start)", "control dependent on paramsChanged or the >= comparison")
				default:
					r.fail(base+"|due", pos, FuncName(fn), "a rotation is requested only when parameters changed or the open segment reached SegmentMinDuration", "the call is reachable with both conditions false: segments are cut early")
				}
			} else {
				// audio-led MPEG-TS: AU count and duration
				auConds := ifsOnV(fn, func(v ssa.Value) bool {
					bo, ok := v.(*ssa.BinOp)
					if !ok || bo.Op != token.GEQ {
						return false
					}
					f, _ := loadedField(bo.X)
					k, isK := constInt(bo.Y)
					return f == auCount && isK && k == minAU
				})
				if len(auConds) > 0 && onlyIf(fn, call, auConds, true) {
					r.ok(base+"|au-count", pos, FuncName(fn), "an audio-led MPEG-TS rotation needs audioAUCount >= mpegtsSegmentMinAUCount", "guarded")
				} else {
					r.fail(base+"|au-count", pos, FuncName(fn), "an audio-led MPEG-TS rotation needs audioAUCount >= mpegtsSegmentMinAUCount", "no such guard")
				}
				if len(durWant) > 0 && onlyIfAny(fn, call, durWant) {
					r.ok(base+"|due", pos, FuncName(fn), "an audio-led MPEG-TS rotation needs the open segment to have reached SegmentMinDuration", "guarded by the >= comparison")
				} else {
					r.fail(base+"|due", pos, FuncName(fn), "an audio-led MPEG-TS rotation needs the open segment to have reached SegmentMinDuration", "no strict duration guard")
				}
			}
			// the instant handed to the rotation is the instant that was compared
			if len(durConds) > 0 {
				bo := durConds[0].Val.(*ssa.BinOp)
				t := bo.X.(*ssa.BinOp).X
				if sameCallShape(t, call.Call.Args[0]) {
					r.ok(base+"|same-instant", pos, FuncName(fn), "the DTS given to the rotation is the one that was compared with the minimum duration", "same expression")
				} else {
					r.fail(base+"|same-instant", pos, FuncName(fn), "the DTS given to the rotation is the one that was compared with the minimum duration", "compared "+t.String()+", passed "+call.Call.Args[0].String())
				}
			}
		})
	}
	r.Instances = n
	return r
}

func mentionsField(v ssa.Value, f *types.Var, depth int) bool {
	if depth > 6 {
		return false
	}
	if lf, _ := loadedField(v); lf == f {
		return true
	}
	switch x := v.(type) {
	case *ssa.BinOp:
		return mentionsField(x.X, f, depth+1) || mentionsField(x.Y, f, depth+1)
	case *ssa.Call:
		for _, a := range x.Call.Args {
			if mentionsField(a, f, depth+1) {
				return true
			}
		}
	case *ssa.Convert:
		return mentionsField(x.X, f, depth+1)
	case *ssa.UnOp:
		return mentionsField(x.X, f, depth+1)
	}
	return false
}

// sameCallShape: two calls of the same function whose arguments have equal access paths.
func sameCallShape(a, b ssa.Value) bool {
	if a == b {
		return true
	}
	ca, ok1 := a.(*ssa.Call)
	cb, ok2 := b.(*ssa.Call)
	if !ok1 || !ok2 || ca.Call.StaticCallee() == nil || ca.Call.StaticCallee() != cb.Call.StaticCallee() || len(ca.Call.Args) != len(cb.Call.Args) {
		return false
	}
	for i := range ca.Call.Args {
		if ca.Call.Args[i] != cb.Call.Args[i] && accessPath(ca.Call.Args[i]) != accessPath(cb.Call.Args[i]) {
			return false
		}
	}
	return true
}

// ---------------------------------------------------------------------------

func ruleT6(c *Ctx) *RuleResult {
	r := &RuleResult{Floor: 4, FloorWhat: "video writers"}
	si := c.segmenter()
	for _, p := range si.problems {
		r.undecided("%s", p)
	}
	if len(si.problems) > 0 {
		return r
	}
	pending := c.Field("", "muxerSegmenter", "pendingParamsChange")
	firstRA := c.Field("", "muxerTrack", "firstRandomAccessReceived")
	if pending == nil || firstRA == nil {
		r.undecided("pendingParamsChange / firstRandomAccessReceived not found")
		return r
	}
	for _, fn := range si.video {
		fnn := FuncName(fn)
		ra, pc := si.flagsIn(fn)
		raConds := ifsOn(fn, condIs(ra))
		var setTrue, setFalse []*ssa.Store
		var firstStores []*ssa.Store
		allInstrs(fn, func(in ssa.Instruction) {
			if st, ok := in.(*ssa.Store); ok {
				f, _ := fieldOfAddr(st.Addr)
				b, isB := constBool(st.Val)
				if f == pending && isB {
					if b {
						setTrue = append(setTrue, st)
					} else {
						setFalse = append(setFalse, st)
					}
				}
				if f == firstRA && isB && b {
					firstStores = append(firstStores, st)
				}
			}
		})
		// (a) raises the flag — in the writer, or in a helper of the segmenter that it calls (compare-and-store helper)
		if len(setTrue) == 0 {
			allInstrs(fn, func(in ssa.Instruction) {
				call, ok := in.(*ssa.Call)
				if !ok {
					return
				}
				g := call.Call.StaticCallee()
				if g == nil || g == fn || !InRootPkg(g) || g.Blocks == nil {
					return
				}
				allInstrs(g, func(x ssa.Instruction) {
					if st, ok := x.(*ssa.Store); ok {
						f, _ := fieldOfAddr(st.Addr)
						if b, isB := constBool(st.Val); f == pending && isB && b {
							setTrue = append(setTrue, st)
						}
					}
				})
			})
		}
		if len(setTrue) > 0 {
			r.ok(fnn+"|raises-pending", c.Pos(setTrue[0].Pos()), fnn, "a parameter change raises the pending flag", fmt.Sprintf("%d store(s)", len(setTrue)))
		} else {
			r.fail(fnn+"|raises-pending", c.Pos(fn.Pos()), fnn, "a parameter change raises the pending flag", "no store of true to pendingParamsChange")
		}
		// (b) clears it only when consumed at a random-access unit — in the writer itself, or in a helper that
		// the writer calls with its random-access flag and whose result is the params-changed flag
		cfn, cra, cpc, cFalse := fn, ra, pc, setFalse
		var helperReturns *ssa.Function
		if len(setFalse) == 0 {
			if call, ok := pc.(*ssa.Call); ok && call.Call.StaticCallee() != nil && InLib(call.Call.StaticCallee()) {
				h := call.Call.StaticCallee()
				var hFalse []*ssa.Store
				allInstrs(h, func(in ssa.Instruction) {
					if st, ok := in.(*ssa.Store); ok {
						f, _ := fieldOfAddr(st.Addr)
						if b, isB := constBool(st.Val); f == pending && isB && !b {
							hFalse = append(hFalse, st)
						}
					}
				})
				var hra ssa.Value
				for j, a := range call.Call.Args {
					if stripConv(a) == stripConv(ra) && j < len(h.Params) {
						hra = h.Params[j]
					}
				}
				var hpc ssa.Value
				nret := 0
				for _, b := range h.Blocks {
					if ret, ok := b.Instrs[len(b.Instrs)-1].(*ssa.Return); ok && len(ret.Results) == 1 {
						hpc = retVal(ret, 0)
						nret++
					}
				}
				if nret > 1 {
					hpc = nil
					helperReturns = h // several returns: judged by the constant each one returns (below)
				}
				if len(hFalse) > 0 && hra != nil && (hpc != nil || helperReturns != nil) {
					cfn, cra, cpc, cFalse = h, hra, hpc, hFalse
				}
			}
		}
		craConds := ifsOnV(cfn, condIs(cra))
		pendConds := ifsOnV(cfn, func(v ssa.Value) bool { f, _ := loadedField(v); return f == pending })
		if len(cFalse) == 0 {
			r.fail(fnn+"|consumes-pending", c.Pos(fn.Pos()), fnn, "the pending flag is consumed at the next random-access unit", "the flag is never cleared: every later key frame forces a cut")
		}
		for i, st := range cFalse {
			key := fmt.Sprintf("%s|consumes-pending#%d", fnn, i+1)
			switch {
			case len(craConds) == 0 || !onlyIf(cfn, st, craConds, true):
				r.fail(key, c.Pos(st.Pos()), fnn, "the pending flag is cleared only at a random-access unit", "the clear is reachable when the random-access flag is false: a change delivered in a non-key unit is forgotten before the key frame that must cut the segment")
			case len(pendConds) == 0 || !onlyIf(cfn, st, pendConds, true):
				r.fail(key, c.Pos(st.Pos()), fnn, "the pending flag is cleared only when it was set", "clear not control dependent on the flag")
			default:
				// the params-changed value is true exactly on that path: phi edge from the clearing block is true
				okPC := false
				if phi, ok := cpc.(*ssa.Phi); ok {
					for k, e := range phi.Edges {
						if b, isB := constBool(e); isB && b {
							pred := phi.Block().Preds[k]
							if pred == st.Block() || st.Block().Dominates(pred) {
								okPC = true
							}
						}
					}
				}
				if helperReturns != nil {
					// early-return form: every return reached after the clear yields true, every other one false
					okPC = true
					for _, b := range helperReturns.Blocks {
						ret, isRet := b.Instrs[len(b.Instrs)-1].(*ssa.Return)
						if !isRet {
							continue
						}
						bv, isB := constBool(retVal(ret, 0))
						after := st.Block() == b || st.Block().Dominates(b)
						if !isB || bv != after {
							okPC = false
						}
					}
				}
				if okPC {
					r.ok(key, c.Pos(st.Pos()), fnn, "the pending flag is consumed at a random-access unit and turns into paramsChanged=true for that unit", "clear is control dependent on randomAccess && pending; paramsChanged is true on that path"+map[bool]string{true: " (in " + FuncName(cfn) + ", called with the random-access flag)", false: ""}[cfn != fn])
				} else {
					r.fail(key, c.Pos(st.Pos()), fnn, "consuming the pending flag makes paramsChanged true for that unit", "paramsChanged is not set on the consuming path: the change never forces a cut nor an init regeneration")
				}
			}
		}
		// (c) skip until the first random-access unit
		firstConds := ifsOnV(fn, func(v ssa.Value) bool { f, _ := loadedField(v); return f == firstRA })
		var forwards []ssa.Instruction
		allInstrs(fn, func(in ssa.Instruction) {
			if call, ok := in.(*ssa.Call); ok {
				if call.Call.StaticCallee() == si.writeSample {
					forwards = append(forwards, in)
				}
				if f := call.Call.StaticCallee(); f != nil && f.Signature.Recv() != nil && typeIs(f.Signature.Recv().Type(), modPath, "muxerSegmentMPEGTS") && strings.HasPrefix(f.Name(), "write") {
					forwards = append(forwards, in)
				}
			}
		})
		for i, fw := range forwards {
			key := fmt.Sprintf("%s|skip-until-random-access#%d", fnn, i+1)
			conds := append(wantAll(firstConds, true), wantAll(raConds, true)...)
			if len(firstConds) > 0 && onlyIfAny(fn, fw, conds) {
				r.ok(key, c.Pos(fw.Pos()), fnn, "a unit is forwarded only if a random-access unit was already received or this unit is one", "guarded by firstRandomAccessReceived / randomAccess")
			} else {
				r.fail(key, c.Pos(fw.Pos()), fnn, "a unit is forwarded only if a random-access unit was already received or this unit is one",
					"no guard on firstRandomAccessReceived (its three siblings have one): a stream joined mid-GOP starts its first segment on a non-random-access unit")
			}
		}
		for i, st := range firstStores {
			key := fmt.Sprintf("%s|first-random-access-set#%d", fnn, i+1)
			okLatch := len(raConds) > 0 && onlyIf(fn, st, raConds, true)
			if !okLatch && len(raConds) > 0 && len(firstConds) > 0 {
				// `if !first && !ra { return }; if !first { …; first = true }`: the latch is tested twice. The store sits
				// behind a test that saw it open; a path on which an earlier test saw it closed cannot get there (nothing
				// stores the latch in between: its only stores are the ones judged here)
				if onlyIf(fn, st, firstConds, false) && onlyIfAny(fn, st, append(wantAll(raConds, true), wantAll(firstConds, true)...)) {
					okLatch = true
				}
			}
			if okLatch {
				r.ok(key, c.Pos(st.Pos()), fnn, "firstRandomAccessReceived is set only at a random-access unit", "guarded")
			} else {
				r.fail(key, c.Pos(st.Pos()), fnn, "firstRandomAccessReceived is set only at a random-access unit", "set on a path where randomAccess is false")
			}
		}
	}
	r.Instances = len(si.video)
	return r
}

// ---------------------------------------------------------------------------

func ruleG2(c *Ctx) *RuleResult {
	r := &RuleResult{Floor: 3, FloorWhat: "size-guarded sinks"}
	// sinks: append to muxerTrack.fmp4Samples; calls of (*mpegts.Writer).Write*
	samples := c.Field("", "muxerTrack", "fmp4Samples")
	type sink struct {
		fn   *ssa.Function
		in   ssa.Instruction
		desc string
	}
	var sinks []sink
	for _, fn := range c.Funcs {
		if !InRootPkg(fn) {
			continue
		}
		allInstrs(fn, func(in ssa.Instruction) {
			if st, ok := in.(*ssa.Store); ok {
				if f, _ := fieldOfAddr(st.Addr); f == samples && samples != nil {
					if call, ok := st.Val.(*ssa.Call); ok {
						if b, ok := call.Call.Value.(*ssa.Builtin); ok && b.Name() == "append" {
							sinks = append(sinks, sink{fn, in, "append to fmp4Samples"})
						}
					}
				}
			}
			if call, ok := in.(*ssa.Call); ok {
				f := call.Call.StaticCallee()
				if f != nil && f.Signature.Recv() != nil && typeIs(f.Signature.Recv().Type(), "github.com/bluenviron/mediacommon/v2/pkg/formats/mpegts", "Writer") && strings.HasPrefix(f.Name(), "Write") {
					sinks = append(sinks, sink{fn, in, "mpegts.Writer." + f.Name()})
				}
			}
		})
	}
	for i, sk := range sinks {
		fn := sk.fn
		key := fmt.Sprintf("%s|sink#%d", FuncName(fn), i+1)
		// guard: (load acc + size) > load segmentMaxSize
		var accField *types.Var
		var accBase ssa.Value
		var sizeV ssa.Value
		conds := ifsOnV(fn, func(v ssa.Value) bool {
			bo, ok := v.(*ssa.BinOp)
			if !ok || bo.Op != token.GTR {
				return false
			}
			if f, _ := loadedField(bo.Y); f == nil || f.Name() != "segmentMaxSize" {
				return false
			}
			add, ok := bo.X.(*ssa.BinOp)
			if !ok || add.Op != token.ADD {
				return false
			}
			f, b := loadedField(add.X)
			if f == nil {
				return false
			}
			accField, accBase, sizeV = f, b, add.Y
			return true
		})
		what := "the unit is accepted only if `segment size so far + unit size > segmentMaxSize` was false; the accumulator is per segment and grows on the same path"
		if len(conds) == 0 || !onlyIf(fn, sk.in, conds, false) {
			r.fail(key, c.Pos(posOf(sk.in)), FuncName(fn), what, sk.desc+" is reachable without the size test having failed: an oversized segment is buffered")
			continue
		}
		owner := c.fieldOwner(accField)
		if !strings.HasPrefix(owner, "muxerSegment") {
			r.fail(key, c.Pos(posOf(sk.in)), FuncName(fn), what, "the running size is "+c.fieldName(accField)+", which does not belong to a segment: the limit is applied per "+owner+" and a segment made of several of them exceeds SegmentMaxSize")
			continue
		}
		// increment on the same path: a store acc = acc + size that dominates the sink
		inc := false
		allInstrs(fn, func(in ssa.Instruction) {
			if st, ok := in.(*ssa.Store); ok {
				if f, b := fieldOfAddr(st.Addr); f == accField && accessPath(b) == accessPath(accBase) {
					if add, ok := st.Val.(*ssa.BinOp); ok && add.Op == token.ADD && add.Y == sizeV && instrDominates(in, sk.in) {
						inc = true
					}
				}
			}
		})
		if inc {
			r.ok(key, c.Pos(posOf(sk.in)), FuncName(fn), what, "guard on "+c.fieldName(accField)+" + size, increment dominates "+sk.desc)
		} else {
			r.fail(key, c.Pos(posOf(sk.in)), FuncName(fn), what, "the accumulator "+c.fieldName(accField)+" is not increased by the unit size before "+sk.desc+": the limit is never reached")
		}
	}
	r.Instances = len(sinks)
	return r
}

// ---------------------------------------------------------------------------

func ruleG3(c *Ctx) *RuleResult {
	r := &RuleResult{Floor: 6, FloorWhat: "counter obligations"}
	segF := c.Field("", "muxerStream", "segments")
	// the audio-only MPEG-TS rule counts writes: one increment per accepted write
	if f := c.Field("", "muxerSegmentMPEGTS", "audioAUCount"); f != nil {
		n := 0
		for _, fn := range c.Funcs {
			for _, st := range storesToField(c, fn, f) {
				if freshObject(st.Addr) {
					continue
				}
				n++
				key := fmt.Sprintf("%s|audioAUCount#%d", FuncName(fn), n)
				add, ok := st.Val.(*ssa.BinOp)
				one := int64(0)
				if ok {
					one, _ = constInt(add.Y)
				}
				if ok && add.Op == token.ADD && one == 1 {
					r.ok(key, c.Pos(st.Pos()), FuncName(fn), "audioAUCount counts writes: it only ever becomes old + 1", "+1")
				} else {
					r.fail(key, c.Pos(st.Pos()), FuncName(fn), "audioAUCount counts writes: it only ever becomes old + 1", "stored value is "+st.Val.String()+": an audio-only MPEG-TS segment is cut before 100 writes")
				}
			}
		}
	}
	for _, name := range []string{"nextSegmentID", "nextPartID", "segmentDeleteCount"} {
		f := c.Field("", "muxerStream", name)
		if f == nil {
			r.undecided("muxerStream.%s not found", name)
			continue
		}
		n := 0
		for _, fn := range c.Funcs {
			allInstrs(fn, func(in ssa.Instruction) {
				st, ok := in.(*ssa.Store)
				if !ok {
					return
				}
				ff, base := fieldOfAddr(st.Addr)
				if ff != f {
					return
				}
				if _, fresh := base.(*ssa.Alloc); fresh {
					return // initial value in the composite literal of Start
				}
				n++
				key := fmt.Sprintf("%s|%s#%d", FuncName(fn), name, n)
				add, ok := st.Val.(*ssa.BinOp)
				one := int64(0)
				if ok {
					one, _ = constInt(add.Y)
				}
				lf, lb := ssa.Value(nil), ssa.Value(nil)
				if ok {
					if x, b := loadedField(add.X); x == f {
						lf, lb = add.X, b
					}
				}
				if !ok || add.Op != token.ADD || one != 1 || lf == nil || accessPath(lb) != accessPath(base) {
					r.fail(key, c.Pos(st.Pos()), FuncName(fn), name+" only ever becomes old + 1", "stored value is "+st.Val.String())
					return
				}
				if name == "segmentDeleteCount" {
					// same block as the window shrink
					same := false
					for _, x := range st.Block().Instrs {
						if s2, ok := x.(*ssa.Store); ok {
							if sf, _ := fieldOfAddr(s2.Addr); sf == segF {
								if _, isSlice := s2.Val.(*ssa.Slice); isSlice {
									same = true
								}
							}
						}
					}
					if same {
						r.ok(key, c.Pos(st.Pos()), FuncName(fn), "segmentDeleteCount is increased exactly where the window head is dropped", "same block as s.segments = s.segments[1:]")
					} else {
						r.fail(key, c.Pos(st.Pos()), FuncName(fn), "segmentDeleteCount is increased exactly where the window head is dropped", "increment is not paired with the shrink: MEDIA-SEQUENCE drifts from the first listed segment")
					}
					return
				}
				// unconditional: the increment dominates every other instruction that can return
				uncond := true
				allInstrs(fn, func(x ssa.Instruction) {
					if _, isRet := x.(*ssa.Return); isRet && !instrDominates(st, x) {
						uncond = false
					}
				})
				// rotateSegments first calls rotateParts (which may fail): allow returns that precede only by that call
				if !uncond {
					uncond = returnsBeforeOnlyAfterCalls(fn, st)
				}
				if uncond {
					r.ok(key, c.Pos(st.Pos()), FuncName(fn), name+" becomes old + 1 unconditionally at the top of its rotate function", "dominates every return (other than the failure of the nested part rotation)")
				} else {
					r.fail(key, c.Pos(st.Pos()), FuncName(fn), name+" becomes old + 1 unconditionally at the top of its rotate function", "a return is reachable without the increment: two segments/parts get the same number")
				}
			})
		}
		if n == 0 {
			r.undecided("%s: %s — %s (the construct this rule is anchored on was not found: no verdict)", "muxerStream."+name+"|none", name+" is incremented somewhere", "no increment found")
		}
	}
	// converse, anchored on the action: every shrink of the window is followed, before any return, by the increment
	if delF0 := c.Field("", "muxerStream", "segmentDeleteCount"); delF0 != nil && segF != nil {
		k := 0
		for _, fn := range c.Funcs {
			allInstrs(fn, func(in ssa.Instruction) {
				st, ok := in.(*ssa.Store)
				if !ok {
					return
				}
				if sf, _ := fieldOfAddr(st.Addr); sf != segF {
					return
				}
				if _, isSlice := st.Val.(*ssa.Slice); !isSlice {
					return
				}
				k++
				key := fmt.Sprintf("%s|shrink-counts#%d", FuncName(fn), k)
				what := "every drop of the window head is counted in segmentDeleteCount before the function can return"
				bad := pathAvoiding(c, fn, st, func(x ssa.Instruction) bool {
					s2, ok := x.(*ssa.Store)
					if !ok {
						return false
					}
					f2, _ := fieldOfAddr(s2.Addr)
					return f2 == delF0
				}, func(x ssa.Instruction) bool { _, isRet := x.(*ssa.Return); return isRet })
				if bad == nil {
					r.ok(key, c.Pos(st.Pos()), FuncName(fn), what, "no path from the shrink to a return avoids the increment")
				} else {
					r.fail(key, c.Pos(st.Pos()), FuncName(fn), what, "a path drops the head without counting it: EXT-X-MEDIA-SEQUENCE stops advancing while segments leave the playlist, so clients take the new first segment for the old one", bad...)
				}
			})
		}
	}
	// MEDIA-SEQUENCE = segmentDeleteCount; segment id = nextSegmentID; part id = nextPartID
	delF := c.Field("", "muxerStream", "segmentDeleteCount")
	msF := c.Field("pkg/playlist", "Media", "MediaSequence")
	pairs := []struct {
		dst  *types.Var
		src  *types.Var
		desc string
	}{
		{msF, delF, "MEDIA-SEQUENCE is the deleted-segment counter"},
		{c.Field("", "muxerSegmentFMP4", "id"), c.Field("", "muxerStream", "nextSegmentID"), "an fMP4 segment's id is the segment counter at creation"},
		{c.Field("", "muxerSegmentMPEGTS", "id"), c.Field("", "muxerStream", "nextSegmentID"), "an MPEG-TS segment's id is the segment counter at creation"},
		{c.Field("", "muxerPart", "id"), c.Field("", "muxerStream", "nextPartID"), "a part's id is the part counter at creation"},
	}
	for _, p := range pairs {
		if p.dst == nil || p.src == nil {
			r.undecided("field for %q not found", p.desc)
			continue
		}
		n := 0
		for _, fn := range c.Funcs {
			if !InRootPkg(fn) {
				continue
			}
			allInstrs(fn, func(in ssa.Instruction) {
				st, ok := in.(*ssa.Store)
				if !ok {
					return
				}
				if f, _ := fieldOfAddr(st.Addr); f != p.dst {
					return
				}
				n++
				key := fmt.Sprintf("%s|%s#%d", FuncName(fn), c.fieldName(p.dst), n)
				if f, _ := loadedField(stripConv(st.Val)); f == p.src {
					r.ok(key, c.Pos(st.Pos()), FuncName(fn), p.desc, "assigned from "+c.fieldName(p.src))
				} else {
					r.fail(key, c.Pos(st.Pos()), FuncName(fn), p.desc, "assigned "+st.Val.String())
				}
			})
		}
		if n == 0 {
			r.undecided("%s: %s — %s (the construct this rule is anchored on was not found: no verdict)", c.fieldName(p.dst)+"|none", p.desc, "no assignment found")
		}
	}
	return r
}

// returnsBeforeOnlyAfterCalls: every return not dominated by st is dominated by a failed call that precedes st
// (the nested rotateParts in rotateSegments), i.e. lies on an `if err != nil` branch of a call before st.
func returnsBeforeOnlyAfterCalls(fn *ssa.Function, st *ssa.Store) bool {
	ok := true
	allInstrs(fn, func(x ssa.Instruction) {
		ret, isRet := x.(*ssa.Return)
		if !isRet || instrDominates(st, x) {
			return
		}
		if isSuccessReturn(ret) {
			ok = false
		}
	})
	return ok
}

// ---------------------------------------------------------------------------

func ruleG4(c *Ctx) *RuleResult {
	r := &RuleResult{Floor: 3, FloorWhat: "stores to muxerStream.targetDuration"}
	f := c.Field("", "muxerStream", "targetDuration")
	if f == nil {
		r.undecided("muxerStream.targetDuration not found")
		return r
	}
	n := 0
	for _, fn := range c.Funcs {
		allInstrs(fn, func(in ssa.Instruction) {
			st, ok := in.(*ssa.Store)
			if !ok {
				return
			}
			ff, base := fieldOfAddr(st.Addr)
			if ff != f {
				return
			}
			n++
			key := fmt.Sprintf("%s|store#%d", FuncName(fn), n)
			what := "the announced target duration only grows (or is copied from the leading stream)"
			if lf, lb := loadedField(st.Val); lf == f && accessPath(lb) != accessPath(base) {
				r.ok(key, c.Pos(st.Pos()), FuncName(fn), what, "copy of another stream's targetDuration ("+accessPath(lb)+")")
				return
			}
			conds := ifsOnV(fn, func(v ssa.Value) bool {
				bo, ok := v.(*ssa.BinOp)
				if !ok {
					return false
				}
				lf, _ := loadedField(bo.X)
				ly, _ := loadedField(bo.Y)
				if bo.Op == token.EQL && lf == f {
					k, isK := constInt(bo.Y)
					return isK && k == 0
				}
				if bo.Op == token.GTR && bo.X == st.Val && ly == f {
					return true
				}
				if bo.Op == token.LSS && lf == f && bo.Y == st.Val {
					return true
				}
				return false
			})
			if len(conds) > 0 && onlyIf(fn, st, conds, true) {
				r.ok(key, c.Pos(st.Pos()), FuncName(fn), what, "control dependent on old == 0 or new > old")
			} else {
				r.fail(key, c.Pos(st.Pos()), FuncName(fn), what, "the store is reachable when new <= old and old != 0: EXT-X-TARGETDURATION can decrease")
			}
		})
	}
	r.Instances = n
	return r
}

func ruleG5(c *Ctx) *RuleResult {
	r := &RuleResult{Floor: 1, FloorWhat: "calls through clientTrack.onData"}
	onData := c.Field("", "clientTrack", "onData")
	if onData == nil {
		// renamed: the one function-typed field of clientTrack that takes the two timestamps and the units
		if nt := c.NamedType("", "clientTrack"); nt != nil {
			if st, ok := nt.Underlying().(*types.Struct); ok {
				var cands []*types.Var
				for i := 0; i < st.NumFields(); i++ {
					if sig, ok := st.Field(i).Type().Underlying().(*types.Signature); ok && sig.Params().Len() == 3 && sig.Results().Len() == 0 {
						cands = append(cands, st.Field(i))
					}
				}
				if len(cands) == 1 {
					onData = cands[0]
				}
			}
		}
	}
	hd := c.Method("", "clientTrack", "handleData")
	if onData == nil || hd == nil {
		r.undecided("clientTrack.onData / handleData not found")
		return r
	}
	n := 0
	for _, fn := range c.Funcs {
		allInstrs(fn, func(in ssa.Instruction) {
			call, ok := in.(*ssa.Call)
			if !ok {
				return
			}
			if f, _ := loadedField(call.Call.Value); f != onData {
				return
			}
			n++
			key := fmt.Sprintf("%s|onData#%d", FuncName(fn), n)
			if fn != hd {
				r.fail(key, c.Pos(call.Pos()), FuncName(fn), "the user callback is invoked from handleData only", "called from "+FuncName(fn))
				return
			}
			pts := call.Call.Args[0]
			conds := ifsOnV(fn, func(v ssa.Value) bool {
				bo, ok := v.(*ssa.BinOp)
				if !ok || bo.Op != token.LSS || bo.X != pts {
					return false
				}
				k, isK := constInt(bo.Y)
				return isK && k == 0
			})
			if len(conds) > 0 && onlyIf(fn, call, conds, false) {
				r.ok(key, c.Pos(call.Pos()), FuncName(fn), "a unit is delivered only if `pts < 0` was false for the delivered pts", "guarded")
			} else {
				r.fail(key, c.Pos(call.Pos()), FuncName(fn), "a unit is delivered only if `pts < 0` was false for the delivered pts", "no such guard: units preceding the time origin are delivered with negative time")
			}
		})
	}
	r.Instances = n
	return r
}

func ruleG6(c *Ctx) *RuleResult {
	r := &RuleResult{Floor: 2, FloorWhat: "rounding functions"}
	for _, spec := range []struct {
		name    string
		allowed []string
	}{{"targetDuration", []string{"Round", "Ceil"}}, {"partTargetDuration", []string{"Ceil"}}} {
		fn := c.Func("", spec.name)
		if fn == nil {
			r.undecided("function %s not found", spec.name)
			continue
		}
		n := 0
		allInstrs(fn, func(in ssa.Instruction) {
			cv, ok := in.(*ssa.Convert)
			if !ok {
				return
			}
			src, ok1 := cv.X.Type().Underlying().(*types.Basic)
			dst, ok2 := cv.Type().Underlying().(*types.Basic)
			if !ok1 || !ok2 || src.Info()&types.IsFloat == 0 || dst.Info()&types.IsInteger == 0 {
				return
			}
			n++
			key := fmt.Sprintf("%s|float-to-int#%d", spec.name, n)
			what := spec.name + "() converts to an integer only the result of math." + strings.Join(spec.allowed, " / math.")
			if call, ok := cv.X.(*ssa.Call); ok {
				for _, a := range spec.allowed {
					if isFuncNamed(call.Call.StaticCallee(), "math", a) {
						r.ok(key, c.Pos(cv.Pos()), FuncName(fn), what, "math."+a)
						return
					}
				}
			}
			r.fail(key, c.Pos(cv.Pos()), FuncName(fn), what, "converts "+cv.X.String()+": truncation announces a target smaller than a listed duration")
		})
		if n == 0 {
			r.undecided("%s: %s — %s (the construct this rule is anchored on was not found: no verdict)", spec.name+"|none", spec.name+"() rounds a floating-point duration", "no float→int conversion found")
		}
	}
	return r
}

func ruleG7(c *Ctx) *RuleResult {
	r := &RuleResult{Floor: 1, FloorWhat: "roll-over sites"}
	fn := c.Method("", "muxerStream", "hasPart")
	slot := c.Field("", "muxerStream", "nextSegment")
	parts := c.Field("", "muxerSegmentFMP4", "parts")
	if fn == nil || slot == nil || parts == nil {
		r.undecided("hasPart / nextSegment / parts not found")
		return r
	}
	// rewrite site: segmentID + 1 where segmentID derives from the first parameter
	var rewrites []ssa.Instruction
	allInstrs(fn, func(in ssa.Instruction) {
		if bo, ok := in.(*ssa.BinOp); ok && bo.Op == token.ADD {
			if k, ok := constInt(bo.Y); ok && k == 1 && derivesFromParam(bo.X, fn.Params[1], 0) {
				rewrites = append(rewrites, in)
			}
		}
	})
	// test against the open segment: load of `parts` through the slot
	var openTests []ssa.Instruction
	acc := c.slotAccessors()
	var loadsOpenParts func(in ssa.Instruction, depth int) bool
	loadsOpenParts = func(in ssa.Instruction, depth int) bool {
		if u, ok := in.(*ssa.UnOp); ok && u.Op == token.MUL {
			if f, b := fieldOfAddr(u.X); f == parts {
				sb := stripAsserts(b)
				if ex, isEx := sb.(*ssa.Extract); isEx {
					sb = stripAsserts(ex.Tuple)
				}
				if sf, _ := loadedField(sb); sf == slot {
					return true
				}
				if call, isCall := sb.(*ssa.Call); isCall {
					if af, isAcc := acc[call.Call.StaticCallee()]; isAcc && af == slot {
						return true
					}
				}
			}
		}
		// a helper of the stream that reads the open segment's parts on behalf of its caller
		if call, ok := in.(*ssa.Call); ok && depth < 2 {
			if g := call.Call.StaticCallee(); g != nil && InRootPkg(g) && g.Blocks != nil && g != fn {
				found := false
				allInstrs(g, func(x ssa.Instruction) {
					if loadsOpenParts(x, depth+1) {
						found = true
					}
				})
				return found
			}
		}
		return false
	}
	allInstrs(fn, func(in ssa.Instruction) {
		if loadsOpenParts(in, 0) {
			openTests = append(openTests, in)
		}
	})
	if len(rewrites) == 0 {
		r.undecided("%s: %s — %s (the construct this rule is anchored on was not found: no verdict)", "hasPart|rollover", "a part index past the end of a complete segment is rewritten to part 0 of the next segment", "no `segmentID + 1` rewrite found")
		return r
	}
	for i, rw := range rewrites {
		key := fmt.Sprintf("hasPart|rollover-reaches-open#%d", i+1)
		reach := false
		for _, ot := range openTests {
			if instrReaches(rw, ot) {
				reach = true
			}
		}
		if reach {
			r.ok(key, c.Pos(posOf(rw)), FuncName(fn), "after the roll-over the request can be matched against the open segment's parts", "a path leads from the rewrite to the load of nextSegment.parts")
		} else {
			r.fail(key, c.Pos(posOf(rw)), FuncName(fn), "after the roll-over the request can be matched against the open segment's parts",
				"no path from the rewrite to the open segment: a request for (last complete segment, part past the end) stays blocked after part 0 of the next segment is published")
		}
	}
	r.Instances = len(rewrites)
	return r
}

func derivesFromParam(v ssa.Value, p *ssa.Parameter, depth int) bool {
	if v == p {
		return true
	}
	if depth > 6 {
		return false
	}
	if phi, ok := v.(*ssa.Phi); ok {
		for _, e := range phi.Edges {
			if e != v && derivesFromParam(e, p, depth+1) {
				return true
			}
		}
	}
	if bo, ok := v.(*ssa.BinOp); ok {
		return derivesFromParam(bo.X, p, depth+1)
	}
	return false
}

func ruleG8(c *Ctx) *RuleResult {
	r := &RuleResult{Floor: 1, FloorWhat: "window comparisons in the playlist generator"}
	fn := c.Method("", "muxerStream", "generateMediaPlaylistFMP4")
	if fn == nil {
		r.undecided("generateMediaPlaylistFMP4 not found")
		return r
	}
	n := 0
	allInstrs(fn, func(in ssa.Instruction) {
		bo, ok := in.(*ssa.BinOp)
		if !ok || bo.Op != token.LEQ {
			return
		}
		sub, ok := bo.X.(*ssa.BinOp)
		if !ok || sub.Op != token.SUB {
			return
		}
		lc, ok := sub.X.(*ssa.Call)
		if !ok {
			return
		}
		if b, ok := lc.Call.Value.(*ssa.Builtin); !ok || b.Name() != "len" {
			return
		}
		n++
		key := fmt.Sprintf("generateMediaPlaylistFMP4|window-cmp#%d", n)
		k, isK := constInt(bo.Y)
		// the subtrahend must be the index of a range over the same slice expression
		idx := sub.Y
		okIdx, ranged := rangeIndexOver(idx)
		switch {
		case !isK || k != 2:
			r.fail(key, c.Pos(bo.Pos()), FuncName(fn), "parts and date-times are listed for the last two segments: `(len(X) - i) <= 2`", "bound is "+bo.Y.String())
		case !okIdx:
			r.fail(key, c.Pos(bo.Pos()), FuncName(fn), "`i` in `(len(X) - i) <= 2` is the index of a range loop", "subtrahend "+idx.String()+" is not a range index")
		case accessPath(ranged) != accessPath(lc.Call.Args[0]):
			r.fail(key, c.Pos(bo.Pos()), FuncName(fn), "`(len(X) - i)` uses the index of a range over the same X",
				"the loop ranges over "+fieldChain(ranged)+" but the length is taken of "+fieldChain(lc.Call.Args[0])+": the index is shifted, so parts / date-times disappear from (or appear on) the wrong segments")
		default:
			r.ok(key, c.Pos(bo.Pos()), FuncName(fn), "`(len(X) - i) <= 2` uses the index of a range over the same X", "range over "+fieldChain(ranged))
		}
	})
	r.Instances = n
	return r
}

// rangeIndexOver: idx is the index variable of a range-over-slice loop (phi −1, +1); returns the ranged slice
// (the operand of the len() that bounds the loop).
func rangeIndexOver(idx ssa.Value) (bool, ssa.Value) {
	if ok, over := countedIndexOver(idx); ok {
		return true, over
	}
	add, ok := idx.(*ssa.BinOp)
	if !ok || add.Op != token.ADD {
		return false, nil
	}
	if one, ok := constInt(add.Y); !ok || one != 1 {
		return false, nil
	}
	phi, ok := add.X.(*ssa.Phi)
	if !ok {
		return false, nil
	}
	start := false
	for _, e := range phi.Edges {
		if k, ok := constInt(e); ok && k == -1 {
			start = true
		}
	}
	if !start {
		return false, nil
	}
	// the loop condition: idx < len(X)
	for _, ref := range *add.Referrers() {
		if bo, ok := ref.(*ssa.BinOp); ok && bo.Op == token.LSS && bo.X == idx {
			if lc, ok := bo.Y.(*ssa.Call); ok {
				if b, ok := lc.Call.Value.(*ssa.Builtin); ok && b.Name() == "len" {
					return true, lc.Call.Args[0]
				}
			}
		}
	}
	return false, nil
}

// ---------------------------------------------------------------------------
// G9: one playlist entry per listed segment

func init() {
	registerRule("G9", "one entry per listed segment: in both media-playlist generators every iteration over the segment window appends exactly one entry, except for the delta-update skip (`i < skipped`) and a failed type test", ruleG9)
}

func ruleG9(c *Ctx) *RuleResult {
	r := &RuleResult{Floor: 2, FloorWhat: "segment loops in the playlist generators"}
	segF := c.Field("", "muxerStream", "segments")
	plSeg := c.Field("pkg/playlist", "Media", "Segments")
	if segF == nil || plSeg == nil {
		r.undecided("muxerStream.segments / playlist.Media.Segments not found")
		return r
	}
	n := 0
	for _, name := range []string{"generateMediaPlaylistFMP4", "generateMediaPlaylistMPEGTS"} {
		fn := c.Method("", "muxerStream", name)
		if fn == nil {
			r.undecided("%s not found", name)
			continue
		}
		// appends to pl.Segments
		var appends []ssa.Instruction
		allInstrs(fn, func(in ssa.Instruction) {
			if st, ok := in.(*ssa.Store); ok {
				if f, _ := fieldOfAddr(st.Addr); f == plSeg {
					appends = append(appends, in)
				}
			}
		})
		// loop headers of range loops over s.segments that contain an append
		for _, h := range fn.Blocks {
			if len(h.Instrs) == 0 {
				continue
			}
			iff, ok := h.Instrs[len(h.Instrs)-1].(*ssa.If)
			if !ok {
				continue
			}
			bo, ok := iff.Cond.(*ssa.BinOp)
			if !ok || bo.Op != token.LSS {
				continue
			}
			okIdx, ranged := rangeIndexOver(bo.X)
			if !okIdx {
				continue
			}
			if lc, ok := bo.Y.(*ssa.Call); !ok || lc.Call.Args == nil || lc.Call.Args[0] != ranged {
				continue // not the loop condition itself (e.g. `i < skipped`)
			}
			if f, _ := loadedField(ranged); f != segF {
				// a range over a re-sliced window is still a segment loop: report it through G8
				if sl, ok := ranged.(*ssa.Slice); ok {
					if f2, _ := loadedField(sl.X); f2 != segF {
						continue
					}
				} else {
					continue
				}
			}
			body := h.Succs[0]
			hasAppend := false
			for _, a := range appends {
				if body.Dominates(a.Block()) {
					hasAppend = true
				}
			}
			if !hasAppend {
				continue
			}
			n++
			key := fmt.Sprintf("%s|segment-loop#%d", name, n)
			// allowed skips: `i < skipped` true, type test false
			cut := map[edge]bool{}
			for _, b := range fn.Blocks {
				if !body.Dominates(b) || len(b.Instrs) == 0 {
					continue
				}
				i2, ok := b.Instrs[len(b.Instrs)-1].(*ssa.If)
				if !ok {
					continue
				}
				if ex, ok := i2.Cond.(*ssa.Extract); ok {
					if _, isTA := ex.Tuple.(*ssa.TypeAssert); isTA && ex.Index == 1 {
						cut[edge{b.Index, b.Succs[1].Index}] = true
					}
				}
				if cmp, ok := i2.Cond.(*ssa.BinOp); ok && cmp.Op == token.LSS && cmp.X == bo.X {
					// i < skipped (skipped is a local integer, not a length)
					if _, isCall := cmp.Y.(*ssa.Call); !isCall {
						cut[edge{b.Index, b.Succs[0].Index}] = true
					}
				}
			}
			// search a path body → header that avoids every append
			blocked := map[int]bool{}
			for _, a := range appends {
				blocked[a.Block().Index] = true
			}
			seen := reachableBlocks(fn, body.Index, cut, blocked)
			if seen[h.Index] {
				r.fail(key, c.blockDesc(h), FuncName(fn), "every listed segment yields exactly one playlist entry (only the delta-update skip and a failed type test may skip one)",
					"an iteration can reach the next one without appending an entry: a segment that still counts for MEDIA-SEQUENCE and for the window is missing from the playlist, so every later segment gets a wrong sequence number")
			} else {
				r.ok(key, c.blockDesc(h), FuncName(fn), "every listed segment yields exactly one playlist entry (only the delta-update skip and a failed type test may skip one)", "no append-free iteration path")
			}
		}
	}
	r.Instances = n
	return r
}

// countedIndexOver: idx is the induction variable of `for i := 0; i < len(X); i++` (a phi of 0 and itself + 1 whose
// loop condition compares it with len(X)): the hand-written form of a range over X.
func countedIndexOver(idx ssa.Value) (bool, ssa.Value) {
	phi, ok := idx.(*ssa.Phi)
	if !ok {
		return false, nil
	}
	// edges: one start value (0, or any value computed before the loop — a loop that starts at `skipped`) and the step
	start, step := 0, false
	for i, e := range phi.Edges {
		if add, ok := e.(*ssa.BinOp); ok && add.Op == token.ADD && add.X == ssa.Value(phi) {
			if k, ok := constInt(add.Y); ok && k == 1 {
				step = true
				continue
			}
			return false, nil
		}
		// a start value: comes over an edge from outside the loop
		if phi.Block().Dominates(phi.Block().Preds[i]) {
			return false, nil
		}
		start++
	}
	if start != 1 || !step || phi.Referrers() == nil {
		return false, nil
	}
	for _, ref := range *phi.Referrers() {
		bo, ok := ref.(*ssa.BinOp)
		if !ok || bo.Op != token.LSS || bo.X != ssa.Value(phi) {
			continue
		}
		if lc, ok := bo.Y.(*ssa.Call); ok {
			if b, ok := lc.Call.Value.(*ssa.Builtin); ok && b.Name() == "len" {
				// the comparison must be the loop condition: its block ends in an If on it
				if iff, ok := bo.Block().Instrs[len(bo.Block().Instrs)-1].(*ssa.If); ok && iff.Cond == ssa.Value(bo) {
					return true, lc.Call.Args[0]
				}
			}
		}
	}
	return false, nil
}
