package main

import (
	"go/types"

	"golang.org/x/tools/go/ssa"
)

// Frozen exemptions (DESIGN L5): each was confirmed by reading the code; one line of reason
// per entry. The side conditions that make an exemption sound are checked by rule L5; an entry
// whose function or field no longer exists simply never matches.
var unlockedStoreExempt = map[string]string{
	"(*muxerStream).createFirstSegment|muxerStream.nextSegment": "first open segment: request code reads the open-segment slot only after hasContent() is true, which needs a locked, broadcast rotation that happens after this store (gate checked by L5)",
	"(*muxerStream).createFirstSegment|muxerStream.nextPart":    "first open part: never read by request code (checked by L5); the writer is the only goroutine that touches the open part",
}

func l3Exempt(c *Ctx, fn *ssa.Function, f *types.Var) string {
	return unlockedStoreExempt[FuncName(fn)+"|"+c.fieldName(f)]
}
