package main

import (
	"go/types"

	"golang.org/x/tools/go/ssa"
)

// Frozen exemptions (DESIGN L5): each was confirmed by reading the code; one line of reason
// per entry. The side conditions that make an exemption sound are checked by rule L5; an entry
// whose function or field no longer exists simply never matches.
var unlockedStoreExempt = map[string]string{
	// empty since fix 6a00624: the first segment of a stream is now created under the muxer mutex, so the
	// two unlocked stores to the open slots that used to be exempted here no longer exist
}

// unlocked request-side reads that are ordered by typestate rather than by the muxer mutex
var unlockedReadExempt = map[string]string{
	"fileRAM.parts|(*storage.fileRAM).Reader": "typestate: the read is dominated by the `finalized` test (rule T7) and parts are only allocated on the open segment, which is finalized exactly when it leaves the open slot and before it is published (rule P1)",
}

func l3Exempt(c *Ctx, fn *ssa.Function, f *types.Var) string {
	return unlockedStoreExempt[FuncName(fn)+"|"+c.fieldName(f)]
}
