package main

// Ninth batch: rules written after the ninth round of seeded changes.

import (
	"fmt"
	"go/constant"
	"go/token"
	"go/types"
	"sort"
	"strings"

	"golang.org/x/tools/go/ssa"
)

func init() {
	registerRule("T6h", "every recorded parameter change is a pending change: in the video writers (and their helpers) a store into a field of the track's codec value is accompanied, on every path through it, by a store of true to muxerSegmenter.pendingParamsChange", ruleT6h)
	registerRule("G18", "no map order in text: in library code a loop over a map does not append to a slice, concatenate a string or write to a builder with a value that depends on the loop's key or element, unless the result is sorted afterwards", ruleG18)
	registerRule("T26", "strings are written as they are read: in the marshal functions of the playlist packages a string-typed field reaches the text unmodified — no quoting, escaping or case-mapping library call sits between the field and the output, and no %q verb is used", ruleT26)
	registerRule("G11i", "no FRAME-RATE without timing: every store into MultivariantVariant.FrameRate in populateMultivariantPlaylist stores the address of the value FPS() returned and is control dependent on that value being non-zero", ruleG11i)
	registerRule("G11j", "a rendition's language is its track's language: the language given to a muxerStream in Muxer.Start is Track.Language itself, on every path", ruleG11j)
	registerRule("F49", "guard and clamp agree: where a slice is cut to `x[:h]` under a test `len(x) > k` of the same slice, h is k", ruleF49)
	registerRule("T7t", "Remove only unlinks: the Remove methods of the storage File implementations store nothing, and the only calls they make are os.Remove of the file's own path; in the storage package the content-changing os calls are confined to the constructor (os.Create)", ruleT7t)
	registerRule("P8", "no shared scratch memory in request code: a byte slice handed to io.CopyBuffer (or read into) by a muxer request handler is allocated in that handler, never loaded from a field of a muxer object", ruleP8)
	registerRule("F50", "scale before dividing: in duration and timestamp arithmetic of the root package no integer quotient is multiplied by a constant unit (x / rate * time.Second truncates to whole seconds)", ruleF50)
}

// ---------------------------------------------------------------------------

func isCodecsField(f *types.Var) bool {
	return f != nil && f.Pkg() != nil && strings.HasSuffix(f.Pkg().Path(), "/pkg/codecs")
}

func ruleT6h(c *Ctx) *RuleResult {
	r := &RuleResult{Floor: 10, FloorWhat: "stores into codec parameter fields in the video writers"}
	si := c.segmenter()
	for _, p := range si.problems {
		r.undecided("%s", p)
	}
	if len(si.problems) > 0 {
		return r
	}
	pending := c.Field("", "muxerSegmenter", "pendingParamsChange")
	if pending == nil {
		r.undecided("muxerSegmenter.pendingParamsChange not found")
		return r
	}
	isRaise := func(in ssa.Instruction) bool {
		st, ok := in.(*ssa.Store)
		if !ok {
			return false
		}
		f, _ := fieldOfAddr(st.Addr)
		b, isB := constBool(st.Val)
		return f == pending && isB && b
	}
	isRet := func(in ssa.Instruction) bool {
		_, ok := in.(*ssa.Return)
		return ok
	}
	// the writers plus the root-package functions they call statically (compare-and-store helpers)
	var fns []*ssa.Function
	seen := map[*ssa.Function]bool{}
	var add func(fn *ssa.Function, depth int)
	add = func(fn *ssa.Function, depth int) {
		if fn == nil || seen[fn] || fn.Blocks == nil || !InRootPkg(fn) || depth > 2 {
			return
		}
		seen[fn] = true
		fns = append(fns, fn)
		allInstrs(fn, func(in ssa.Instruction) {
			if call, ok := in.(*ssa.Call); ok {
				if g := call.Call.StaticCallee(); g != nil && g != si.writeSample && g.Signature.Recv() != nil && fn.Signature.Recv() != nil &&
					types.Identical(g.Signature.Recv().Type(), fn.Signature.Recv().Type()) {
					add(g, depth+1)
				}
			}
		})
	}
	for _, fn := range si.video {
		add(fn, 0)
	}
	n := 0
	for _, fn := range fns {
		var raises []ssa.Instruction
		allInstrs(fn, func(in ssa.Instruction) {
			if isRaise(in) {
				raises = append(raises, in)
			}
		})
		k := 0
		allInstrs(fn, func(in ssa.Instruction) {
			st, ok := in.(*ssa.Store)
			if !ok {
				return
			}
			f, _ := fieldOfAddr(st.Addr)
			if !isCodecsField(f) {
				return
			}
			n++
			k++
			key := fmt.Sprintf("%s|%s#%d", FuncName(fn), f.Name(), k)
			what := "a new value of codec." + f.Name() + " is recorded together with a pending parameter change"
			okR := false
			for _, ra := range raises {
				if ra.Block() == st.Block() || ra.Block().Dominates(st.Block()) {
					okR = true
				}
			}
			if !okR && len(raises) > 0 && pathAvoiding(c, fn, st, isRaise, isRet) == nil {
				okR = true
			}
			// a helper that only stores: judged at its call sites
			if !okR && !containsFn(si.video, fn) {
				all, any := true, false
				for _, e := range c.callersOf(fn) {
					if e.Site == nil {
						continue
					}
					any = true
					cf := e.Caller.Func
					site := e.Site.(ssa.Instruction)
					okSite := false
					allInstrs(cf, func(x ssa.Instruction) {
						if isRaise(x) && (x.Block() == site.Block() || x.Block().Dominates(site.Block())) {
							okSite = true
						}
					})
					if !okSite && pathAvoiding(c, cf, site, isRaise, isRet) == nil {
						// every path from the call to a return raises the flag — provided there is a raise at all
						has := false
						allInstrs(cf, func(x ssa.Instruction) {
							if isRaise(x) {
								has = true
							}
						})
						okSite = has
					}
					if !okSite {
						all = false
					}
				}
				okR = any && all
			}
			if okR {
				r.ok(key, c.Pos(st.Pos()), FuncName(fn), what, "the flag is raised on every path through the store")
			} else {
				r.fail(key, c.Pos(st.Pos()), FuncName(fn), what, "the new parameter is stored without raising pendingParamsChange: the next random-access unit does not force a cut and the init segment keeps the old parameters")
			}
		})
	}
	// the address of a codec field handed to a compare-and-store helper: the helper's store through that parameter
	for _, fn := range fns {
		k := 0
		allInstrs(fn, func(in ssa.Instruction) {
			call, ok := in.(*ssa.Call)
			if !ok {
				return
			}
			g := call.Call.StaticCallee()
			if g == nil || g.Blocks == nil || !InRootPkg(g) {
				return
			}
			for j, a := range call.Call.Args {
				fa, ok := a.(*ssa.FieldAddr)
				if !ok || j >= len(g.Params) {
					continue
				}
				f, _ := fieldOfAddr(fa)
				if !isCodecsField(f) {
					continue
				}
				var stores []*ssa.Store
				var raises []ssa.Instruction
				allInstrs(g, func(x ssa.Instruction) {
					if st, ok := x.(*ssa.Store); ok && st.Addr == ssa.Value(g.Params[j]) {
						stores = append(stores, st)
					}
					if isRaise(x) {
						raises = append(raises, x)
					}
				})
				if len(stores) == 0 {
					continue
				}
				n++
				k++
				key := fmt.Sprintf("%s|%s via %s#%d", FuncName(fn), f.Name(), g.Name(), k)
				what := "a new value of codec." + f.Name() + " is recorded together with a pending parameter change"
				okAll := true
				for _, st := range stores {
					okR := false
					for _, ra := range raises {
						if ra.Block() == st.Block() || ra.Block().Dominates(st.Block()) {
							okR = true
						}
					}
					if !okR && len(raises) > 0 && pathAvoiding(c, g, st, isRaise, isRet) == nil {
						okR = true
					}
					if !okR {
						okAll = false
					}
				}
				if okAll {
					r.ok(key, c.Pos(call.Pos()), FuncName(fn), what, "the helper raises the flag on every path through its store")
				} else {
					r.fail(key, c.Pos(call.Pos()), FuncName(fn), what, "the helper "+FuncName(g)+" stores the new parameter without raising pendingParamsChange")
				}
			}
		})
	}
	r.Instances = n
	return r
}

func containsFn(l []*ssa.Function, fn *ssa.Function) bool {
	for _, x := range l {
		if x == fn {
			return true
		}
	}
	return false
}

// ---------------------------------------------------------------------------

// dependsOn: v is computed from one of the roots (through conversions, arithmetic, field loads, calls, slices).
func dependsOn(v ssa.Value, roots map[ssa.Value]bool, depth int) bool {
	if v == nil || depth > 10 {
		return false
	}
	if roots[v] {
		return true
	}
	in, ok := v.(ssa.Instruction)
	if !ok {
		return false
	}
	if _, isPhi := v.(*ssa.Phi); isPhi && depth > 0 {
		// loop-carried accumulators are not key-dependent by themselves
		for _, op := range in.Operands(nil) {
			if *op != nil && roots[*op] {
				return true
			}
		}
		return false
	}
	for _, op := range in.Operands(nil) {
		if *op != nil && dependsOn(*op, roots, depth+1) {
			return true
		}
	}
	return false
}

func ruleG18(c *Ctx) *RuleResult {
	r := &RuleResult{Floor: 2, FloorWhat: "loops over maps in library code"}
	n := 0
	var fns []*ssa.Function
	for _, fn := range c.Funcs {
		if InLib(fn) && fn.Blocks != nil {
			fns = append(fns, fn)
		}
	}
	sort.Slice(fns, func(i, j int) bool { return fns[i].String() < fns[j].String() })
	for _, fn := range fns {
		k := 0
		allInstrs(fn, func(in ssa.Instruction) {
			rg, ok := in.(*ssa.Range)
			if !ok {
				return
			}
			if _, isMap := rg.X.Type().Underlying().(*types.Map); !isMap {
				return
			}
			n++
			k++
			key := fmt.Sprintf("%s|map-loop#%d", FuncName(fn), k)
			what := "what the loop over the map produces does not depend on the iteration order"
			// key / element values of the loop
			roots := map[ssa.Value]bool{}
			var nexts []*ssa.Next
			for _, ref := range *rg.Referrers() {
				if nx, ok := ref.(*ssa.Next); ok {
					nexts = append(nexts, nx)
					for _, r2 := range *nx.Referrers() {
						if ex, ok := r2.(*ssa.Extract); ok && ex.Index > 0 {
							roots[ex] = true
						}
					}
				}
			}
			if len(nexts) == 0 {
				r.ok(key, c.Pos(rg.Pos()), FuncName(fn), what, "no iteration")
				return
			}
			// loop blocks: reachable from the Next block and reaching it again
			inLoop := map[*ssa.BasicBlock]bool{}
			for _, nx := range nexts {
				for _, b := range fn.Blocks {
					if reachableBlocks(fn, nx.Block().Index, nil, nil)[b.Index] && reachableBlocks(fn, b.Index, nil, nil)[nx.Block().Index] {
						inLoop[b] = true
					}
				}
			}
			bad := ""
			var sinkSlices []ssa.Value
			for b := range inLoop {
				for _, x := range b.Instrs {
					switch y := x.(type) {
					case *ssa.BinOp:
						if y.Op == token.ADD && isStringType(y.Type()) && (dependsOn(y.X, roots, 0) || dependsOn(y.Y, roots, 0)) {
							// a string built from the key alone is fine; an accumulation (one operand loop-carried) is not
							if _, isPhi := y.X.(*ssa.Phi); isPhi {
								bad = "a string is accumulated in map order at " + c.Pos(y.Pos())
							}
							if u, isLoad := y.X.(*ssa.UnOp); isLoad && u.Op == token.MUL {
								if _, isAl := u.X.(*ssa.Alloc); isAl {
									bad = "a string is accumulated in map order at " + c.Pos(y.Pos())
								}
							}
						}
					case *ssa.Call:
						if bi, ok := y.Call.Value.(*ssa.Builtin); ok && bi.Name() == "append" && len(y.Call.Args) == 2 {
							if dependsOn(y.Call.Args[1], roots, 0) {
								sinkSlices = append(sinkSlices, y)
							}
						}
						if g := y.Call.StaticCallee(); g != nil && g.Signature.Recv() != nil && strings.HasPrefix(g.Name(), "Write") {
							rt := g.Signature.Recv().Type()
							if typeIs(rt, "strings", "Builder") || typeIs(rt, "bytes", "Buffer") {
								for _, a := range y.Call.Args[1:] {
									if dependsOn(a, roots, 0) {
										bad = "text is written in map order at " + c.Pos(y.Pos())
									}
								}
							}
						}
					}
				}
			}
			if bad == "" && len(sinkSlices) > 0 {
				// appended elements: fine when the function sorts afterwards
				sorted := false
				allInstrs(fn, func(x ssa.Instruction) {
					if call, ok := x.(*ssa.Call); ok {
						if g := call.Call.StaticCallee(); g != nil && g.Pkg != nil {
							pk := g.Pkg.Pkg.Path()
							if (pk == "sort" || pk == "slices") && (strings.HasPrefix(g.Name(), "Sort") || g.Name() == "Strings" || g.Name() == "Ints" || g.Name() == "Slice" || g.Name() == "SliceStable" || g.Name() == "Stable") {
								sorted = true
							}
						}
					}
				})
				if !sorted {
					bad = "elements are appended in map order at " + c.Pos(sinkSlices[0].Pos()) + " and never sorted"
				}
			}
			if bad == "" {
				r.ok(key, c.Pos(rg.Pos()), FuncName(fn), what, "the body only updates order-insensitive state")
			} else {
				r.fail(key, c.Pos(rg.Pos()), FuncName(fn), what, bad+": two calls with the same input produce different text (a listed URI changes between two reloads)")
			}
		})
	}
	r.Instances = n
	return r
}

// ---------------------------------------------------------------------------

func ruleT26(c *Ctx) *RuleResult {
	r := &RuleResult{Floor: 20, FloorWhat: "string-typed values printed by the marshal functions"}
	all, _ := c.playlistFuncs()
	sort.Slice(all, func(i, j int) bool { return all[i].String() < all[j].String() })
	// library functions that return their string argument transformed
	transformer := func(g *ssa.Function) bool {
		if g == nil || g.Pkg == nil {
			return false
		}
		pk := g.Pkg.Pkg.Path()
		if strings.HasPrefix(pk, modPath) {
			return false
		}
		switch pk {
		case "strconv":
			return strings.HasPrefix(g.Name(), "Quote") || strings.HasPrefix(g.Name(), "AppendQuote") || g.Name() == "Unquote"
		case "net/url":
			return strings.Contains(g.Name(), "Escape")
		case "html":
			return true
		case "strings":
			switch g.Name() {
			case "ToUpper", "ToLower", "Title", "TrimSpace", "Trim", "TrimLeft", "TrimRight", "TrimPrefix", "TrimSuffix", "Replace", "ReplaceAll", "Map", "ToValidUTF8", "ToTitle":
				return true
			}
		}
		return false
	}
	n := 0
	for _, fn := range all {
		if !inMarshal(fn) {
			continue
		}
		k := 0
		allInstrs(fn, func(in ssa.Instruction) {
			call, ok := in.(*ssa.Call)
			if !ok {
				return
			}
			g := call.Call.StaticCallee()
			if g == nil {
				return
			}
			// printf verbs
			if g.Pkg != nil && g.Pkg.Pkg.Path() == "fmt" && strings.Contains(g.Name(), "rintf") {
				for _, a := range call.Call.Args {
					if s, ok := constString(a); ok && (strings.Contains(s, "%q") || strings.Contains(s, "%x") || strings.Contains(s, "%+q") || strings.Contains(s, "%#q")) {
						k++
						n++
						r.fail(fmt.Sprintf("%s|printf-verb#%d", FuncName(fn), k), c.Pos(call.Pos()), FuncName(fn), "strings are printed verbatim", "the format "+fmt.Sprintf("%q", s)+" quotes or re-encodes its argument: the decoder reads the raw bytes between the quotes and does not undo that")
					}
				}
				return
			}
			if !transformer(g) {
				return
			}
			hasStr := false
			for _, a := range call.Call.Args {
				if isStringType(a.Type()) {
					if _, isConst := a.(*ssa.Const); !isConst {
						hasStr = true
					}
				}
			}
			if !hasStr {
				return
			}
			k++
			n++
			r.fail(fmt.Sprintf("%s|%s#%d", FuncName(fn), g.Name(), k), c.Pos(call.Pos()), FuncName(fn), "strings are printed verbatim",
				g.Pkg.Pkg.Path()+"."+g.Name()+" transforms a value on its way into the text, the decoder takes the raw bytes between the quotes: a value holding a character the call rewrites does not survive a round trip")
		})
		// string-typed leaves of the concatenations: counted as instances (they are what the rule looks at)
		for _, root := range stringRoots(fn) {
			for _, l := range flatten(root, 0) {
				if l.kind == "str" || l.kind == "conv" {
					n++
					k++
					r.ok(fmt.Sprintf("%s|verbatim#%d", FuncName(fn), k), c.Pos(root.Pos()), FuncName(fn), "strings are printed verbatim", "the value is concatenated as it is")
				}
			}
		}
	}
	r.Instances = n
	return r
}

// ---------------------------------------------------------------------------

func isZeroNumber(v ssa.Value) bool {
	k, ok := v.(*ssa.Const)
	if !ok || k.Value == nil {
		return false
	}
	switch k.Value.Kind() {
	case constant.Int, constant.Float:
		return constant.Sign(k.Value) == 0
	}
	return false
}

func ruleG11i(c *Ctx) *RuleResult {
	r := &RuleResult{Floor: 1, FloorWhat: "stores into the variant's FrameRate"}
	frF := c.fieldByQualifiedName(modPath+"/pkg/playlist", "MultivariantVariant", "FrameRate")
	if frF == nil {
		r.undecided("populateMultivariantPlaylist / MultivariantVariant.FrameRate not found")
		return r
	}
	n := 0
	var cands []*ssa.Function
	for _, g := range c.Funcs {
		if InRootPkg(g) && g.Blocks != nil {
			cands = append(cands, g)
		}
	}
	sort.Slice(cands, func(i, j int) bool { return cands[i].String() < cands[j].String() })
	isFPSCall := func(v ssa.Value) bool {
		call, ok := v.(*ssa.Call)
		return ok && call.Call.StaticCallee() != nil && strings.Contains(call.Call.StaticCallee().Name(), "FPS")
	}
	for _, g := range cands {
		for _, st := range storesToField(c, g, frF) {
			n++
			key := fmt.Sprintf("%s|frame-rate#%d", FuncName(g), n)
			what := "FRAME-RATE is announced only when the parameter set carries a non-zero rate"
			al, ok := st.Val.(*ssa.Alloc)
			if !ok {
				r.undecided("G11i: the value stored into FrameRate at %s is not the address of a local: form not known to the rule", c.Pos(st.Pos()))
				continue
			}
			// the value of the cell
			var cellVal ssa.Value
			nst := 0
			for _, ref := range *al.Referrers() {
				if s2, ok := ref.(*ssa.Store); ok && s2.Addr == ssa.Value(al) {
					cellVal = s2.Val
					nst++
				}
			}
			okSrc := nst == 1 && isFPSCall(cellVal)
			if par, isPar := cellVal.(*ssa.Parameter); nst == 1 && isPar {
				// a helper that takes the rate: every call site passes FPS()
				idx := -1
				for i, pp := range g.Params {
					if pp == par {
						idx = i
					}
				}
				sites := 0
				okSrc = idx >= 0
				for _, e := range c.callersOf(g) {
					if e.Site == nil {
						continue
					}
					sites++
					if !isFPSCall(e.Site.Common().Args[idx]) {
						okSrc = false
					}
				}
				okSrc = okSrc && sites > 0
			}
			if !okSrc {
				r.undecided("G11i: the cell stored into FrameRate at %s is not assigned once from FPS(): form not known to the rule", c.Pos(st.Pos()))
				continue
			}
			call := cellVal
			isRate := func(v ssa.Value) bool {
				v = stripConv(v)
				if v == call {
					return true
				}
				if u, ok := v.(*ssa.UnOp); ok && u.Op == token.MUL && u.X == ssa.Value(al) {
					return true
				}
				return false
			}
			cut := map[edge]bool{}
			for _, b := range g.Blocks {
				iff, ok := b.Instrs[len(b.Instrs)-1].(*ssa.If)
				if !ok {
					continue
				}
				bo, ok := iff.Cond.(*ssa.BinOp)
				if !ok {
					continue
				}
				var other ssa.Value
				switch {
				case isRate(bo.X):
					other = bo.Y
				case isRate(bo.Y):
					other = bo.X
				default:
					continue
				}
				if !isZeroNumber(other) {
					continue
				}
				// cut the edge taken when the rate is not zero: the store must become unreachable
				switch bo.Op {
				case token.NEQ, token.GTR, token.LSS:
					cut[edge{b.Index, b.Succs[0].Index}] = true
				case token.EQL:
					cut[edge{b.Index, b.Succs[1].Index}] = true
				}
			}
			if len(cut) > 0 && !reachableBlocks(g, 0, cut, nil)[st.Block().Index] {
				r.ok(key, c.Pos(st.Pos()), FuncName(g), what, "control dependent on FPS() != 0")
			} else {
				r.fail(key, c.Pos(st.Pos()), FuncName(g), what, "the store is reachable when FPS() returned 0 (no timing information in the VUI): the playlist announces FRAME-RATE=0.000, which does not match the stream")
			}
		}
	}
	r.Instances = n
	return r
}

// ---------------------------------------------------------------------------

func ruleG11j(c *Ctx) *RuleResult {
	r := &RuleResult{Floor: 1, FloorWhat: "muxerStream literals with a language"}
	langF := c.Field("", "muxerStream", "language")
	trackLang := c.Field("", "Track", "Language")
	if langF == nil || trackLang == nil {
		r.undecided("muxerStream.language / Track.Language not found")
		return r
	}
	n := 0
	for _, cl := range c.compositeLiterals("muxerStream") {
		n++
		key := fmt.Sprintf("%s|stream-language#%d", FuncName(cl.fn), n)
		what := "the stream's language is the track's language"
		v, has := cl.fields[langF]
		if _, named := cl.fields[c.Field("", "muxerStream", "name")]; !has && !named {
			// the single stream of an MPEG-TS muxer carries all tracks: neither a name nor a language
			r.ok(key, c.Pos(cl.alloc.Pos()), FuncName(cl.fn), what, "a stream without a name (not a rendition)")
			continue
		}
		if !has {
			r.fail(key, c.Pos(cl.alloc.Pos()), FuncName(cl.fn), what, "the literal does not set the language: LANGUAGE is never announced")
			continue
		}
		var judge func(v ssa.Value, depth int) string // "" ok, "?" unknown, else reason
		judge = func(v ssa.Value, depth int) string {
			v = stripConv(v)
			if f, _ := loadedField(v); f == trackLang {
				return ""
			}
			if depth > 3 {
				return "?"
			}
			switch x := v.(type) {
			case *ssa.Phi:
				res := ""
				for _, e := range x.Edges {
					if w := judge(e, depth+1); w != "" {
						res = w
					}
				}
				return res
			case *ssa.Const:
				return "a constant reaches the language on some path: the language the user gave is dropped there"
			case *ssa.Call:
				// a function applied to the track's language: the announced value is whatever that function returns
				for _, a := range x.Call.Args {
					if judge(a, depth+1) == "" {
						name := "a function value"
						if g := x.Call.StaticCallee(); g != nil {
							name = FuncName(g)
						}
						return "the track's language is passed through " + name + " before it is stored: the announced LANGUAGE is no longer the value the user gave (C16: every rendition appears with its name and language)"
					}
				}
			case *ssa.UnOp:
				if al, ok := x.X.(*ssa.Alloc); ok && x.Op == token.MUL {
					res := ""
					for _, ref := range *al.Referrers() {
						if st, ok := ref.(*ssa.Store); ok && st.Addr == ssa.Value(al) {
							if w := judge(st.Val, depth+1); w != "" {
								res = w
							}
						}
					}
					return res
				}
			}
			return "?"
		}
		if nameV, ok := cl.fields[c.Field("", "muxerStream", "name")]; ok {
			if tn := c.Field("", "Track", "Name"); tn != nil {
				nkey := fmt.Sprintf("%s|stream-name#%d", FuncName(cl.fn), n)
				nwhat := "where the stream's name comes from the track, it is the track's name itself"
				bad := ""
				seen := map[ssa.Value]bool{}
				var fromTrack func(v ssa.Value, d int) bool
				fromTrack = func(v ssa.Value, d int) bool {
					v = stripConv(v)
					if f, _ := loadedField(v); f == tn {
						return true
					}
					return false
				}
				var walk func(v ssa.Value, d int)
				walk = func(v ssa.Value, d int) {
					if v == nil || d > 6 || seen[v] {
						return
					}
					seen[v] = true
					v = stripConv(v)
					switch x := v.(type) {
					case *ssa.Phi:
						for _, e := range x.Edges {
							walk(e, d+1)
						}
					case *ssa.Call:
						for _, a := range x.Call.Args {
							if fromTrack(a, 0) {
								g := "a function value"
								if f := x.Call.StaticCallee(); f != nil {
									g = FuncName(f)
								}
								bad = "Track.Name is passed through " + g + " before it is stored: the announced NAME is no longer the value the user gave"
							}
						}
					case *ssa.UnOp:
						if al, ok := x.X.(*ssa.Alloc); ok && x.Op == token.MUL {
							for _, ref := range *al.Referrers() {
								if st, ok := ref.(*ssa.Store); ok && st.Addr == ssa.Value(al) {
									walk(st.Val, d+1)
								}
							}
						}
					}
				}
				walk(nameV, 0)
				if bad == "" {
					r.ok(nkey, c.Pos(cl.alloc.Pos()), FuncName(cl.fn), nwhat, "no function is applied to Track.Name on its way to the stream")
				} else {
					r.fail(nkey, c.Pos(cl.alloc.Pos()), FuncName(cl.fn), nwhat, bad)
				}
			}
		}
		switch w := judge(v, 0); w {
		case "":
			r.ok(key, c.Pos(cl.alloc.Pos()), FuncName(cl.fn), what, "Track.Language on every path")
		case "?":
			r.undecided("G11j: the language of the muxerStream literal at %s is computed in a form not known to the rule", c.Pos(cl.alloc.Pos()))
		default:
			r.fail(key, c.Pos(cl.alloc.Pos()), FuncName(cl.fn), what, w)
		}
	}
	r.Instances = n
	return r
}

// ---------------------------------------------------------------------------

func lenOf(v ssa.Value) ssa.Value {
	v = stripConv(v)
	call, ok := v.(*ssa.Call)
	if !ok {
		return nil
	}
	if bi, ok := call.Call.Value.(*ssa.Builtin); ok && bi.Name() == "len" && len(call.Call.Args) == 1 {
		return call.Call.Args[0]
	}
	return nil
}

func ruleF49(c *Ctx) *RuleResult {
	r := &RuleResult{Floor: 0, FloorWhat: "clamps of a slice under a test of its length"}
	n := 0
	var fns []*ssa.Function
	for _, fn := range c.Funcs {
		if InLib(fn) && fn.Blocks != nil {
			fns = append(fns, fn)
		}
	}
	sort.Slice(fns, func(i, j int) bool { return fns[i].String() < fns[j].String() })
	for _, fn := range fns {
		k := 0
		for _, b := range fn.Blocks {
			iff, ok := b.Instrs[len(b.Instrs)-1].(*ssa.If)
			if !ok {
				continue
			}
			bo, ok := iff.Cond.(*ssa.BinOp)
			if !ok {
				continue
			}
			var x, bound ssa.Value
			var longEdge int // successor taken when len(x) exceeds the bound
			switch {
			case lenOf(bo.X) != nil && (bo.Op == token.GTR || bo.Op == token.GEQ):
				x, bound, longEdge = lenOf(bo.X), bo.Y, 0
			case lenOf(bo.X) != nil && (bo.Op == token.LEQ || bo.Op == token.LSS):
				x, bound, longEdge = lenOf(bo.X), bo.Y, 1
			case lenOf(bo.Y) != nil && (bo.Op == token.LSS || bo.Op == token.LEQ):
				x, bound, longEdge = lenOf(bo.Y), bo.X, 0
			case lenOf(bo.Y) != nil && (bo.Op == token.GTR || bo.Op == token.GEQ):
				x, bound, longEdge = lenOf(bo.Y), bo.X, 1
			default:
				continue
			}
			tgt := b.Succs[longEdge]
			if len(tgt.Preds) != 1 {
				continue
			}
			for _, in := range tgt.Instrs {
				sl, ok := in.(*ssa.Slice)
				if !ok || sl.High == nil || sl.Max != nil {
					continue
				}
				if sl.Low != nil {
					if z, isK := constInt(sl.Low); !isK || z != 0 {
						continue
					}
				}
				if !sameValueLoose(sl.X, x) {
					continue
				}
				n++
				k++
				key := fmt.Sprintf("%s|clamp#%d", FuncName(fn), k)
				what := "the slice is cut to the bound its length was compared with"
				h, kb := stripConv(sl.High), stripConv(bound)
				hc, hIsC := constInt(h)
				kc, kIsC := constInt(kb)
				switch {
				case sameValueLoose(h, kb):
					r.ok(key, c.Pos(sl.Pos()), FuncName(fn), what, "same value")
				case hIsC && kIsC && hc <= kc:
					r.ok(key, c.Pos(sl.Pos()), FuncName(fn), what, "constant bound not above the tested one")
				case hIsC != kIsC || (hIsC && kIsC):
					r.fail(key, c.Pos(sl.Pos()), FuncName(fn), what, "tested against one bound and cut to another: a buffer between the two is not clamped, or is cut beyond what is left")
				default:
					// two different run-time values: wrong unless one is derived from the other (min / remaining computations)
					if dependsOn(h, map[ssa.Value]bool{kb: true}, 0) {
						r.ok(key, c.Pos(sl.Pos()), FuncName(fn), what, "the cut is computed from the tested bound")
					} else {
						r.fail(key, c.Pos(sl.Pos()), FuncName(fn), what, "the length is tested against "+kb.Name()+" but the slice is cut to "+h.Name()+": a read larger than what is left but not larger than the tested bound goes beyond the window")
					}
				}
			}
		}
	}
	r.Instances = n
	return r
}

// ---------------------------------------------------------------------------

func ruleT7t(c *Ctx) *RuleResult {
	r := &RuleResult{Floor: 4, FloorWhat: "Remove methods and os calls of the storage package"}
	fileT := c.NamedType("pkg/storage", "File")
	if fileT == nil {
		r.undecided("storage.File not found")
		return r
	}
	n := 0
	iface, _ := fileT.Underlying().(*types.Interface)
	if iface == nil {
		r.undecided("storage.File is not an interface")
		return r
	}
	for _, t := range c.implementers("pkg/storage", iface) {
		fn := c.Method("pkg/storage", t.Obj().Name(), "Remove")
		if fn == nil || fn.Blocks == nil {
			r.undecided("%s.Remove not found", t.Obj().Name())
			continue
		}
		n++
		key := FuncName(fn) + "|remove-only-unlinks"
		what := "Remove leaves the bytes alone: readers handed out before keep returning what was written"
		bad := ""
		allInstrs(fn, func(in ssa.Instruction) {
			switch x := in.(type) {
			case *ssa.Store:
				if _, isAl := x.Addr.(*ssa.Alloc); !isAl {
					bad = "stores into the file object at " + c.Pos(x.Pos())
				}
			case *ssa.MapUpdate:
				bad = "updates a map at " + c.Pos(x.Pos())
			case ssa.CallInstruction:
				com := x.Common()
				g := com.StaticCallee()
				switch {
				case isFuncNamed(g, "os", "Remove"):
				case g == nil && !com.IsInvoke():
					if _, isBi := com.Value.(*ssa.Builtin); !isBi {
						bad = "calls a function value at " + c.Pos(in.Pos())
					}
				default:
					name := "an interface method"
					if g != nil {
						name = FuncName(g)
					} else if com.IsInvoke() {
						name = com.Method.Name()
					}
					bad = "calls " + name + " at " + c.Pos(in.Pos())
				}
			}
		})
		if bad == "" {
			r.ok(key, c.Pos(fn.Pos()), FuncName(fn), what, "no store, no call but os.Remove")
		} else {
			r.fail(key, c.Pos(fn.Pos()), FuncName(fn), what, "Remove "+bad+": a reader that is still being drained when the segment leaves the window (the handler copies outside the muxer lock) returns truncated or foreign bytes")
		}
	}
	// os calls of the package
	readOnly := map[string]bool{"Open": true, "Stat": true, "Lstat": true, "Remove": true, "IsNotExist": true, "Getpagesize": true}
	fileRO := map[string]bool{"Read": true, "ReadAt": true, "Seek": true, "Close": true, "Stat": true, "Name": true, "Fd": true, "Sync": true, "ReadFrom": false}
	for _, fn := range c.Funcs {
		if fn.Blocks == nil || fn.Pkg == nil && fn.Parent() == nil {
			continue
		}
		top := enclosingNamed(fn)
		if top == nil || top.Pkg == nil || top.Pkg.Pkg.Path() != modPath+"/pkg/storage" {
			continue
		}
		allInstrs(fn, func(in ssa.Instruction) {
			ci, ok := in.(ssa.CallInstruction)
			if !ok {
				return
			}
			g := ci.Common().StaticCallee()
			if g == nil || g.Pkg == nil || g.Pkg.Pkg.Path() != "os" || g.Name() == "init" {
				return
			}
			n++
			key := fmt.Sprintf("%s|os.%s", FuncName(fn), g.Name())
			what := "the storage package changes a file's content only while it is being written"
			isMethod := g.Signature.Recv() != nil
			switch {
			case !isMethod && readOnly[g.Name()], isMethod && fileRO[g.Name()]:
				if g.Name() == "Remove" && fn.Name() != "Remove" {
					r.fail(key, c.Pos(in.Pos()), FuncName(fn), what, "the file is unlinked outside Remove")
				} else {
					r.ok(key, c.Pos(in.Pos()), FuncName(fn), what, "does not change content")
				}
			case !isMethod && g.Name() == "Create":
				// only where the file object is created
				if c.returnsFresh(fn, 0) || strings.HasPrefix(fn.Name(), "new") {
					r.ok(key, c.Pos(in.Pos()), FuncName(fn), what, "in the constructor")
				} else {
					r.fail(key, c.Pos(in.Pos()), FuncName(fn), what, "os.Create outside the constructor truncates a file that may be listed")
				}
			default:
				r.fail(key, c.Pos(in.Pos()), FuncName(fn), what, "os."+g.Name()+" changes or replaces the content of a file outside the write path: descriptors opened earlier (File.Reader, part readers) see the change")
			}
		})
	}
	r.Instances = n
	return r
}

// ---------------------------------------------------------------------------

func ruleP8(c *Ctx) *RuleResult {
	r := &RuleResult{Floor: 2, FloorWhat: "body copies in muxer request handlers"}
	_, rset, _ := c.roleSets()
	n := 0
	var fns []*ssa.Function
	for fn := range rset {
		if InRootPkg(fn) && fn.Blocks != nil && !isClientFunc(enclosingNamed(fn)) {
			fns = append(fns, fn)
		}
	}
	sort.Slice(fns, func(i, j int) bool { return fns[i].String() < fns[j].String() })
	for _, fn := range fns {
		k := 0
		allInstrs(fn, func(in ssa.Instruction) {
			call, ok := in.(*ssa.Call)
			if !ok {
				return
			}
			g := call.Call.StaticCallee()
			var buf ssa.Value
			name := ""
			switch {
			case isFuncNamed(g, "io", "Copy"), isFuncNamed(g, "io", "CopyN"):
				n++
				k++
				r.ok(fmt.Sprintf("%s|copy#%d", FuncName(fn), k), c.Pos(call.Pos()), FuncName(fn), "the copy uses memory of its own", "io."+g.Name()+" allocates its buffer")
				return
			case isFuncNamed(g, "io", "CopyBuffer"):
				buf, name = call.Call.Args[2], "io.CopyBuffer"
			case isFuncNamed(g, "io", "ReadFull"), isFuncNamed(g, "io", "ReadAtLeast"):
				buf, name = call.Call.Args[1], "io."+g.Name()
			case call.Call.IsInvoke() && call.Call.Method.Name() == "Read" && len(call.Call.Args) == 1:
				buf, name = call.Call.Args[0], "Read"
			default:
				return
			}
			root := rootOf(buf)
			if _, isParam := root.(*ssa.Parameter); isParam {
				return // a forwarding Read: the buffer is the caller's
			}
			n++
			k++
			key := fmt.Sprintf("%s|copy#%d", FuncName(fn), k)
			what := "the copy uses memory of its own"
			if kk, isK := buf.(*ssa.Const); isK && kk.IsNil() {
				r.ok(key, c.Pos(call.Pos()), FuncName(fn), what, "nil buffer")
				return
			}
			if f, _ := loadedField(stripConv(buf)); f != nil {
				r.fail(key, c.Pos(call.Pos()), FuncName(fn), what, name+" works in "+c.fieldName(f)+", a buffer shared by every request: handlers run concurrently, two overlapping downloads receive each other's bytes")
				return
			}
			switch root.(type) {
			case *ssa.MakeSlice, *ssa.Alloc:
				r.ok(key, c.Pos(call.Pos()), FuncName(fn), what, "allocated in the handler")
			case *ssa.FreeVar:
				r.fail(key, c.Pos(call.Pos()), FuncName(fn), what, name+" works in a buffer captured by the handler closure: every request served by this handler shares it")
			default:
				if f, _ := loadedField(root); f != nil {
					r.fail(key, c.Pos(call.Pos()), FuncName(fn), what, name+" works in "+c.fieldName(f)+", a buffer shared by every request")
				} else {
					r.undecided("P8: the buffer of %s at %s has an origin the rule does not know", name, c.Pos(call.Pos()))
				}
			}
		})
	}
	r.Instances = n
	return r
}

// ---------------------------------------------------------------------------

func ruleF50(c *Ctx) *RuleResult {
	r := &RuleResult{Floor: 8, FloorWhat: "integer quotients in time arithmetic of the root package"}
	n := 0
	var fns []*ssa.Function
	for _, fn := range c.Funcs {
		if InRootPkg(fn) && fn.Blocks != nil {
			fns = append(fns, fn)
		}
	}
	sort.Slice(fns, func(i, j int) bool { return fns[i].String() < fns[j].String() })
	isInt := func(t types.Type) bool {
		b, ok := t.Underlying().(*types.Basic)
		return ok && b.Info()&types.IsInteger != 0
	}
	for _, fn := range fns {
		k := 0
		allInstrs(fn, func(in ssa.Instruction) {
			q, ok := in.(*ssa.BinOp)
			if !ok || q.Op != token.QUO || !isInt(q.Type()) {
				return
			}
			n++
			k++
			key := fmt.Sprintf("%s|quotient#%d", FuncName(fn), k)
			what := "an integer quotient is not scaled up afterwards"
			bad := ""
			var walk func(v ssa.Value, depth int)
			walk = func(v ssa.Value, depth int) {
				if depth > 3 {
					return
				}
				refs := v.Referrers()
				if refs == nil {
					return
				}
				for _, ref := range *refs {
					switch x := ref.(type) {
					case *ssa.Convert:
						if isInt(x.Type()) {
							walk(x, depth+1)
						}
					case *ssa.ChangeType:
						walk(x, depth+1)
					case *ssa.BinOp:
						if x.Op != token.MUL {
							continue
						}
						other := x.Y
						if other == v {
							other = x.X
						}
						if kk, isK := constInt(other); isK && (kk >= 1000 || kk <= -1000) {
							bad = fmt.Sprintf("the quotient is multiplied by %d at %s", kk, c.Pos(x.Pos()))
						}
					}
				}
			}
			walk(q, 0)
			if bad == "" {
				r.ok(key, c.Pos(q.Pos()), FuncName(fn), what, "the quotient is final")
			} else {
				r.fail(key, c.Pos(q.Pos()), FuncName(fn), what, bad+": the division truncates before the unit is applied (an offset of samples/rate seconds becomes 0), timestamps and date-times derived from it are wrong by up to one unit")
			}
		})
	}
	r.Instances = n
	return r
}
