package main

// Rules added after the fourth round of seeded changes (DESIGN section 10, "fourth batch").

import (
	"fmt"
	"go/token"
	"go/types"
	"strings"

	"golang.org/x/tools/go/ssa"
)

func init() {
	registerRule("F5b", "reject bound: a sample is silently rejected after the +10 s shift only if its decode time is strictly negative (`dts < 0`): the unit written at exactly -10 s is the first unit of the stream", ruleF5b)
	registerRule("G14", "one leading track: wherever Muxer.Start recognises a video track (a test of isVideo(track.Codec) before the tracks are built) it records that in the flag that the leading-track choice `isVideo || (!hasVideo && i == 0)` reads, or fails", ruleG14)
	registerRule("G15", "preload hint always present: the store of the Low-Latency preload hint is not control dependent on the open segment being present", ruleG15)
	registerRule("F23", "published locals are frozen: a local variable whose address was stored into a struct field is not assigned again afterwards (the struct would silently change with it)", ruleF23)
	registerRule("F24", "find-first returns at the first match: a function whose name says First returns the matching element from inside its search loops, never a loop-carried variable that a later match overwrites", ruleF24)
	registerRule("F22b", "overflow-safe rescaling: a 64-bit time (a pts/dts value, a base time, a stored timestamp) is never rescaled with an inline `x*a/b`; multiplyAndDivide splits the operation so that the product cannot overflow", ruleF22b)
	registerRule("T7f", "own descriptor per reader: in the storage package, a file that a reader seeks in or reads from was opened by the very call that creates the reader (never a descriptor kept in the shared file object)", ruleT7f)
	registerRule("T8", "sample-rate agreement: the codec fields fmp4TimeScale reads for MPEG-4 audio are fields the segmenter's per-access-unit arithmetic reads too (the init's time scale and the units of the fragment times come from the same rate)", ruleT8)
	registerRule("T6d", "parameters are compared before a unit can be dropped: where a video writer compares received parameter sets with the stored ones only after its scan (through a local), no success return is reachable between the scan and the comparison", ruleT6d)
}

func ruleF5b(c *Ctx) *RuleResult {
	r := &RuleResult{Floor: 1, FloorWhat: "sign tests of the shifted decode time"}
	si := c.segmenter()
	if len(si.problems) > 0 {
		r.undecided("%s", si.problems[0])
		return r
	}
	fn := si.writeSample
	dtsF := c.Field("", "fmp4AugmentedSample", "dts")
	n := 0
	for _, b := range fn.Blocks {
		iff, ok := b.Instrs[len(b.Instrs)-1].(*ssa.If)
		if !ok {
			continue
		}
		bo, ok := iff.Cond.(*ssa.BinOp)
		if !ok {
			continue
		}
		f, _ := loadedField(bo.X)
		k, isK := constInt(bo.Y)
		if f != dtsF || !isK || k != 0 {
			continue
		}
		// the branch taken when the comparison holds returns nil (silent rejection)
		ret, isRet := b.Succs[0].Instrs[len(b.Succs[0].Instrs)-1].(*ssa.Return)
		if !isRet || !isSuccessReturn(ret) {
			continue
		}
		n++
		key := fmt.Sprintf("fmp4WriteSample|reject-negative#%d", n)
		what := "the silent rejection is taken only for dts < 0"
		if bo.Op == token.LSS {
			r.ok(key, c.Pos(bo.Pos()), FuncName(fn), what, "sample.dts < 0")
		} else {
			r.fail(key, c.Pos(bo.Pos()), FuncName(fn), what, "the test is `dts "+bo.Op.String()+" 0`: the unit written at exactly -10 s (base time 0, the first unit of such a stream: its opening key frame) is accepted by Write* and never emitted")
		}
	}
	r.Instances = n
	return r
}

func ruleG14(c *Ctx) *RuleResult {
	r := &RuleResult{Floor: 1, FloorWhat: "video-track tests ahead of the leading-track choice"}
	start := c.Method("", "Muxer", "Start")
	isVid := c.Func("", "isVideo")
	leadF := c.Field("", "muxerTrack", "isLeading")
	if start == nil || isVid == nil || leadF == nil {
		r.undecided("Muxer.Start / isVideo / muxerTrack.isLeading not found")
		return r
	}
	// the flag read by the leading-track choice: a bool phi in the backward slice of the stored value
	var sink *ssa.Store
	for _, st := range storesToField(c, start, leadF) {
		// the store whose value is computed from isVideo(...): the leading-track choice
		uses := false
		allInstrs(start, func(in ssa.Instruction) {
			if call, ok := in.(*ssa.Call); ok && call.Call.StaticCallee() == isVid && (instrReachesValue(call, st.Val) || controlsValue(call, st.Val)) {
				uses = true
			}
		})
		if uses && sink == nil {
			sink = st
		}
	}
	if sink == nil {
		r.undecided("G14: no store to muxerTrack.isLeading computed from isVideo(...) in Muxer.Start")
		return r
	}
	flags := map[*ssa.Phi]bool{}
	var back func(v ssa.Value, depth int)
	seen := map[ssa.Value]bool{}
	back = func(v ssa.Value, depth int) {
		if v == nil || seen[v] || depth > 10 {
			return
		}
		seen[v] = true
		switch x := v.(type) {
		case *ssa.Phi:
			// a named boolean variable (short-circuit phis carry the comment "binop")
			if b, ok := x.Type().Underlying().(*types.Basic); ok && b.Kind() == types.Bool && x.Comment != "" && !strings.HasPrefix(x.Comment, "binop") {
				flags[x] = true
			}
			for k, e := range x.Edges {
				back(e, depth+1)
				// short-circuit operators: the operand is the condition of the predecessor's branch
				pred := x.Block().Preds[k]
				if iff, ok := pred.Instrs[len(pred.Instrs)-1].(*ssa.If); ok {
					back(iff.Cond, depth+1)
				}
			}
		case *ssa.UnOp:
			back(x.X, depth+1)
		case *ssa.BinOp:
			back(x.X, depth+1)
			back(x.Y, depth+1)
		}
	}
	back(sink.Val, 0)
	if len(flags) == 0 {
		r.undecided("G14: the leading-track choice in Muxer.Start does not read a flag variable (form not known to the rule)")
		return r
	}
	// all phis of the same variable (same comment) belong to the flag
	names := map[string]bool{}
	for p := range flags {
		names[p.Comment] = true
	}
	setsFlagUnder := func(tb *ssa.BasicBlock) bool {
		ok := false
		for _, b := range start.Blocks {
			for _, in := range b.Instrs {
				p, isPhi := in.(*ssa.Phi)
				if !isPhi {
					break
				}
				if !names[p.Comment] {
					continue
				}
				for k, e := range p.Edges {
					if bv, isB := constBool(e); isB && bv {
						pred := b.Preds[k]
						if pred == tb || tb.Dominates(pred) {
							ok = true
						}
					}
				}
			}
		}
		return ok
	}
	n := 0
	for _, b := range start.Blocks {
		iff, ok := b.Instrs[len(b.Instrs)-1].(*ssa.If)
		if !ok {
			continue
		}
		call, ok := iff.Cond.(*ssa.Call)
		if !ok || call.Call.StaticCallee() != isVid {
			continue
		}
		// only tests that precede the construction of the tracks (not the choice itself)
		if !reachFromTo(start, b, sink.Block()) || b == sink.Block() || b.Dominates(sink.Block()) && len(b.Succs) == 2 && (b.Succs[0] == sink.Block() || b.Succs[1] == sink.Block()) {
			continue
		}
		if instrReachesValue(call, sink.Val) || controlsValue(call, sink.Val) {
			continue
		}
		// only tests inside a loop that carries the flag (the scan that is meant to set it)
		carries := false
		for _, h := range start.Blocks {
			if h == b || !h.Dominates(b) || !reachFromTo(start, b, h) {
				continue
			}
			for _, in := range h.Instrs {
				p, isPhi := in.(*ssa.Phi)
				if !isPhi {
					break
				}
				if names[p.Comment] {
					carries = true
				}
			}
		}
		if !carries {
			// a scan over the tracks that tests isVideo but carries no flag: it cannot record what it saw
			if !inLoopBlock(start, b) {
				continue
			}
			loopHasOtherFlag := false
			for _, h := range start.Blocks {
				if h != b && h.Dominates(b) && reachFromTo(start, b, h) {
					for _, in := range h.Instrs {
						if p, isPhi := in.(*ssa.Phi); isPhi {
							if bb, ok := p.Type().Underlying().(*types.Basic); ok && bb.Kind() == types.Bool && p.Comment != "" && !strings.HasPrefix(p.Comment, "binop") {
								loopHasOtherFlag = true
							}
						} else {
							break
						}
					}
				}
			}
			if loopHasOtherFlag {
				continue // a scan for something else (e.g. the default audio rendition)
			}
		}
		n++
		key := fmt.Sprintf("Muxer.Start|video-seen#%d", n)
		what := "a recognised video track is recorded in the flag the leading-track choice reads"
		tb := b.Succs[0]
		if setsFlagUnder(tb) {
			r.ok(key, c.Pos(call.Pos()), FuncName(start), what, "the flag becomes true under this test")
			continue
		}
		// or every path through the true branch fails
		allFail := true
		for bi, rb := range reachableBlocks(start, tb.Index, nil, nil) {
			if !rb {
				continue
			}
			if ret, ok := start.Blocks[bi].Instrs[len(start.Blocks[bi].Instrs)-1].(*ssa.Return); ok && isSuccessReturn(ret) {
				allFail = false
			}
		}
		if allFail {
			r.ok(key, c.Pos(call.Pos()), FuncName(start), what, "every path through this branch fails")
		} else {
			r.fail(key, c.Pos(call.Pos()), FuncName(start), what,
				"this branch sees a video track but leaves the flag false: with a non-video track listed first, `!hasVideo && i == 0` makes that track leading too — two leading tracks, segments cut on audio samples, the video stream never rotated")
		}
	}
	r.Instances = n
	return r
}

// instrReachesValue: the instruction's value is part of the expression tree of v (data dependence through
// phis, unary and binary operators).
func instrReachesValue(in ssa.Value, v ssa.Value) bool {
	seen := map[ssa.Value]bool{}
	var walk func(x ssa.Value, depth int) bool
	walk = func(x ssa.Value, depth int) bool {
		if x == nil || seen[x] || depth > 12 {
			return false
		}
		seen[x] = true
		if x == in {
			return true
		}
		switch y := x.(type) {
		case *ssa.Phi:
			for _, e := range y.Edges {
				if walk(e, depth+1) {
					return true
				}
			}
		case *ssa.UnOp:
			return walk(y.X, depth+1)
		case *ssa.BinOp:
			return walk(y.X, depth+1) || walk(y.Y, depth+1)
		}
		return false
	}
	return walk(v, 0)
}

func ruleG15(c *Ctx) *RuleResult {
	r := &RuleResult{Floor: 1, FloorWhat: "preload hint stores"}
	hintF := c.Field("pkg/playlist", "Media", "PreloadHint")
	slotF := c.Field("", "muxerStream", "nextSegment")
	if hintF == nil || slotF == nil {
		r.undecided("playlist.Media.PreloadHint / muxerStream.nextSegment not found")
		return r
	}
	n := 0
	for _, fn := range c.Funcs {
		if !InRootPkg(fn) {
			continue
		}
		for _, st := range storesToField(c, fn, hintF) {
			n++
			key := fmt.Sprintf("%s|preload-hint#%d", FuncName(fn), n)
			what := "the preload hint is written whether or not an open segment exists"
			conds := ifsOn(fn, func(v ssa.Value) bool {
				bo, ok := v.(*ssa.BinOp)
				if !ok || (bo.Op != token.NEQ && bo.Op != token.EQL) {
					return false
				}
				k, isNil := bo.Y.(*ssa.Const)
				f, _ := loadedField(bo.X)
				return isNil && k.IsNil() && f == slotF
			})
			dep := false
			for _, ci := range conds {
				bo := ci.If.Cond
				for {
					if u, ok := bo.(*ssa.UnOp); ok && u.Op == token.NOT {
						bo = u.X
						continue
					}
					break
				}
				want := bo.(*ssa.BinOp).Op == token.NEQ // outcome meaning "segment present"
				if onlyIf(fn, st, []condIf{ci}, want) {
					dep = true
				}
			}
			if dep {
				r.fail(key, c.Pos(st.Pos()), FuncName(fn), what, "the store is reachable only if nextSegment != nil: a playlist served after a failed rotation (no open segment until the next write) has no preload hint, and players that rely on it stall or loop")
			} else {
				r.ok(key, c.Pos(st.Pos()), FuncName(fn), what, "not control dependent on the open-segment slot")
			}
		}
	}
	r.Instances = n
	return r
}

func ruleF23(c *Ctx) *RuleResult {
	r := &RuleResult{Floor: 5, FloorWhat: "locals whose address is stored into a struct field"}
	n := 0
	per := map[*ssa.Function]int{}
	for _, fn := range c.Funcs {
		allInstrs(fn, func(in ssa.Instruction) {
			pub, ok := in.(*ssa.Store)
			if !ok {
				return
			}
			al, ok := pub.Val.(*ssa.Alloc)
			if !ok {
				return
			}
			if _, isField := pub.Addr.(*ssa.FieldAddr); !isField {
				return
			}
			// only scalar-like locals (a pointer to a basic value / time / duration): optional fields of the playlists
			pt, ok := al.Type().Underlying().(*types.Pointer)
			if !ok {
				return
			}
			if _, isStruct := pt.Elem().Underlying().(*types.Struct); isStruct && !typeIs(pt.Elem(), "time", "Time") {
				return
			}
			n++
			per[fn]++
			f, _ := fieldOfAddr(pub.Addr)
			key := fmt.Sprintf("%s|%s#%d", FuncName(fn), c.fieldName(f), per[fn])
			what := "the local whose address is stored into " + c.fieldName(f) + " is not assigned afterwards"
			var late ssa.Instruction
			for _, ref := range *al.Referrers() {
				st, ok := ref.(*ssa.Store)
				if !ok || st.Addr != ssa.Value(al) || st == pub {
					continue
				}
				// reachable from the publication without creating the variable anew (a variable declared in a loop body
				// is a new object in every iteration)
				if pathAvoidingRaw(fn, pub, func(x ssa.Instruction) bool { return x == ssa.Instruction(al) }, func(x ssa.Instruction) bool { return x == ssa.Instruction(st) }) {
					late = st
				}
			}
			if late == nil {
				r.ok(key, c.Pos(pub.Pos()), FuncName(fn), what, "no assignment to the local is reachable from the store of its address")
			} else {
				r.fail(key, c.Pos(late.Pos()), FuncName(fn), what, "the local is assigned again at "+c.Pos(late.Pos())+" after &local was stored: the field changes with it (an advertised CAN-SKIP-UNTIL, byte range or date silently takes the value of a scratch computation)")
			}
		})
	}
	r.Instances = n
	return r
}

func ruleF24(c *Ctx) *RuleResult {
	r := &RuleResult{Floor: 1, FloorWhat: "find-first functions"}
	n := 0
	for _, fn := range c.Funcs {
		if !InRootPkg(fn) || !strings.Contains(fn.Name(), "First") || !strings.HasPrefix(strings.ToLower(fn.Name()), "find") {
			continue
		}
		n++
		key := FuncName(fn) + "|first-match"
		what := "the first match is returned from inside the search loops"
		bad := ""
		for _, b := range fn.Blocks {
			ret, ok := b.Instrs[len(b.Instrs)-1].(*ssa.Return)
			if !ok {
				continue
			}
			for i := range ret.Results {
				v := retVal(ret, i)
				if phi, ok := v.(*ssa.Phi); ok {
					// loop-carried: the phi's block is a loop header, or an edge comes from inside a loop
					for k := range phi.Edges {
						pred := phi.Block().Preds[k]
						if phi.Block().Dominates(pred) || inLoopBlock(fn, pred) {
							bad = "result " + phi.Comment + " is carried round the search loop and returned after it: a later match overwrites an earlier one"
						}
					}
				}
			}
		}
		if bad == "" {
			r.ok(key, c.Pos(fn.Pos()), FuncName(fn), what, "every non-constant result is returned where it was found")
		} else {
			r.fail(key, c.Pos(fn.Pos()), FuncName(fn), what, bad+": with several fragments per segment the time origin is taken from the last fragment, earlier units are dropped or delivered with negative time")
		}
	}
	r.Instances = n
	return r
}

func inLoopBlock(fn *ssa.Function, b *ssa.BasicBlock) bool {
	for _, s := range b.Succs {
		if reachableBlocks(fn, s.Index, nil, nil)[b.Index] {
			return true
		}
	}
	return false
}

func isTimeName(name string) bool {
	if r := tsRole(name); r == "dts" || r == "pts" {
		return true
	}
	l := strings.ToLower(name)
	return strings.Contains(l, "basetime") || strings.Contains(l, "timestamp")
}

func ruleF22b(c *Ctx) *RuleResult {
	r := &RuleResult{Floor: 1, FloorWhat: "rescalings of 64-bit times (multiplyAndDivide call sites with a time operand)"}
	mad := c.Func("", "multiplyAndDivide")
	if mad == nil {
		r.undecided("multiplyAndDivide not found")
		return r
	}
	isTimeVal := func(v ssa.Value) bool {
		v = stripConv(v)
		switch x := v.(type) {
		case *ssa.Parameter:
			return isTimeName(x.Name())
		}
		if f, _ := loadedField(v); f != nil {
			return isTimeName(f.Name())
		}
		return false
	}
	n := 0
	per := map[*ssa.Function]int{}
	for _, fn := range c.Funcs {
		if !InRootPkg(fn) || fn == mad {
			continue
		}
		allInstrs(fn, func(in ssa.Instruction) {
			switch x := in.(type) {
			case *ssa.Call:
				if x.Call.StaticCallee() == mad && isTimeVal(x.Call.Args[0]) {
					n++
					per[fn]++
					r.ok(fmt.Sprintf("%s|rescale#%d", FuncName(fn), per[fn]), c.Pos(x.Pos()), FuncName(fn), "a 64-bit time is rescaled through multiplyAndDivide", "call")
				}
			case *ssa.BinOp:
				if x.Op != token.QUO {
					return
				}
				mul, ok := stripConv(x.X).(*ssa.BinOp)
				if !ok || mul.Op != token.MUL {
					return
				}
				if b, ok := mul.Type().Underlying().(*types.Basic); !ok || (b.Kind() != types.Int64 && b.Kind() != types.Uint64) {
					return
				}
				_, cx := mul.X.(*ssa.Const)
				_, cy := mul.Y.(*ssa.Const)
				if cx || cy || (!isTimeVal(mul.X) && !isTimeVal(mul.Y)) {
					return
				}
				n++
				per[fn]++
				r.fail(fmt.Sprintf("%s|rescale#%d", FuncName(fn), per[fn]), c.Pos(x.Pos()), FuncName(fn), "a 64-bit time is rescaled through multiplyAndDivide",
					"inline "+x.String()+": the product overflows int64 for large base times with high-resolution time scales (base 2^40 at 10 MHz), the origin of that track becomes garbage and the tracks lose sync")
			}
		})
	}
	r.Instances = n
	return r
}

func ruleT7f(c *Ctx) *RuleResult {
	r := &RuleResult{Floor: 1, FloorWhat: "files read through a reader of the storage package"}
	n := 0
	per := map[*ssa.Function]int{}
	isOSFile := func(t types.Type) bool {
		p, ok := t.Underlying().(*types.Pointer)
		return ok && typeIs(p.Elem(), "os", "File")
	}
	freshOpen := func(v ssa.Value, fn *ssa.Function) bool {
		v = canon(v)
		ex, ok := v.(*ssa.Extract)
		if !ok || ex.Index != 0 {
			return false
		}
		call, ok := ex.Tuple.(*ssa.Call)
		return ok && call.Parent() == fn && (isFuncNamed(call.Call.StaticCallee(), "os", "Open") || isFuncNamed(call.Call.StaticCallee(), "os", "OpenFile"))
	}
	for _, fn := range c.Funcs {
		if fn.Pkg == nil || !strings.HasSuffix(fn.Pkg.Pkg.Path(), "/pkg/storage") {
			continue
		}
		// reader-creating functions: they return an io.Reader / io.ReadCloser
		res := fn.Signature.Results()
		makesReader := false
		for i := 0; i < res.Len(); i++ {
			if typeIs(res.At(i).Type(), "io", "ReadCloser") || typeIs(res.At(i).Type(), "io", "Reader") {
				makesReader = true
			}
		}
		if !makesReader {
			continue
		}
		allInstrs(fn, func(in ssa.Instruction) {
			var file ssa.Value
			what := ""
			switch x := in.(type) {
			case *ssa.Call:
				if isMethodNamed(x.Call.StaticCallee(), "os", "File", "Seek") {
					file, what = x.Call.Args[0], "Seek"
				}
			case *ssa.Store:
				v := x.Val
				if mi, ok := v.(*ssa.MakeInterface); ok {
					v = mi.X
				}
				if isOSFile(v.Type()) && freshObject(x.Addr) {
					file, what = v, "reader field "+accessPath(x.Addr)
				}
			case *ssa.Return:
				for _, rv := range x.Results {
					v := rv
					if mi, ok := v.(*ssa.MakeInterface); ok {
						v = mi.X
					}
					if isOSFile(v.Type()) {
						file, what = v, "returned reader"
					}
				}
			}
			if file == nil {
				return
			}
			n++
			per[fn]++
			key := fmt.Sprintf("%s|file#%d", FuncName(fn), per[fn])
			req := "the file behind a new reader (" + what + ") was opened by this very call"
			if freshOpen(file, fn) {
				r.ok(key, c.Pos(posOf(in)), FuncName(fn), req, "result of os.Open in the same function")
			} else {
				r.fail(key, c.Pos(posOf(in)), FuncName(fn), req, "the descriptor is "+describeVal(canon(file))+": it is shared between readers, so two overlapping downloads of parts of one segment move each other's file position (a response carries another part's bytes) and Remove cuts off a reader in flight")
			}
		})
	}
	r.Instances = n
	return r
}

func ruleT8(c *Ctx) *RuleResult {
	r := &RuleResult{Floor: 1, FloorWhat: "audio rate fields read by fmp4TimeScale"}
	ts := c.Func("", "fmp4TimeScale")
	si := c.segmenter()
	if ts == nil || len(si.problems) > 0 {
		r.undecided("fmp4TimeScale / segmenter not found")
		return r
	}
	isAudioCfg := func(f *types.Var) bool {
		if f == nil || f.Pkg() == nil {
			return false
		}
		return strings.Contains(f.Pkg().Path(), "mpeg4audio") || (strings.HasSuffix(f.Pkg().Path(), "/pkg/codecs") && strings.Contains(f.Name(), "Rate"))
	}
	fieldsIn := func(fn *ssa.Function) map[*types.Var]bool {
		out := map[*types.Var]bool{}
		allInstrs(fn, func(in ssa.Instruction) {
			switch x := in.(type) {
			case *ssa.UnOp:
				if f, _ := fieldOfAddr(x.X); isAudioCfg(f) && isTimestampType(x.Type()) {
					out[f] = true
				}
			case *ssa.Field:
				if f, _ := fieldOfValue(x); isAudioCfg(f) && isTimestampType(x.Type()) {
					out[f] = true
				}
			}
		})
		return out
	}
	a := fieldsIn(ts)
	b := map[*types.Var]bool{}
	for _, w := range si.audio {
		for f := range fieldsIn(w) {
			b[f] = true
		}
	}
	n := 0
	for f := range a {
		n++
		key := "fmp4TimeScale|" + f.Name()
		what := "the rate field fmp4TimeScale reads is the one the segmenter's audio arithmetic reads"
		if b[f] {
			r.ok(key, c.Pos(ts.Pos()), FuncName(ts), what, f.Name()+" is read by both")
		} else {
			var names []string
			for g := range b {
				names = append(names, g.Name())
			}
			r.fail(key, c.Pos(ts.Pos()), FuncName(ts), what, "fmp4TimeScale reads "+f.Name()+" but the segmenter computes access-unit times from "+strings.Join(names, ", ")+": the init file announces one time scale and the fragments carry ticks of another (HE-AAC with explicit SBR: every PTS halves)")
		}
	}
	r.Instances = n
	return r
}

func ruleT6d(c *Ctx) *RuleResult {
	r := &RuleResult{Floor: 3, FloorWhat: "comparisons of received parameter sets with the stored ones"}
	si := c.segmenter()
	if len(si.problems) > 0 {
		r.undecided("%s", si.problems[0])
		return r
	}
	n := 0
	for _, fn := range si.video {
		k := 0
		allInstrs(fn, func(in ssa.Instruction) {
			call, ok := in.(*ssa.Call)
			if !ok || !isFuncNamed(call.Call.StaticCallee(), "bytes", "Equal") {
				return
			}
			// one side: a field of the codec; the other: the received unit
			var recv ssa.Value
			for i, a := range call.Call.Args {
				if f, _ := loadedField(a); f != nil && f.Pkg() != nil && strings.HasSuffix(f.Pkg().Path(), "/pkg/codecs") {
					recv = call.Call.Args[1-i]
				}
			}
			if recv == nil {
				return
			}
			n++
			k++
			key := fmt.Sprintf("%s|param-compare#%d", FuncName(fn), k)
			what := "no unit can be dropped between the scan that found a parameter set and its comparison with the stored one"
			phi, deferred := recv.(*ssa.Phi)
			if !deferred {
				r.ok(key, c.Pos(call.Pos()), FuncName(fn), what, "compared where the unit is scanned")
				return
			}
			// deferred: from each block that assigns a received unit to the local, a success return must not be reachable
			// without passing the comparison (edges taken when the local is nil are cut: nothing was received)
			cut := map[edge]bool{}
			for _, ci := range ifsOn(fn, func(v ssa.Value) bool {
				bo, ok := v.(*ssa.BinOp)
				if !ok || (bo.Op != token.NEQ && bo.Op != token.EQL) {
					return false
				}
				kk, isNil := bo.Y.(*ssa.Const)
				return isNil && kk.IsNil() && bo.X == ssa.Value(phi)
			}) {
				b := ci.If.Block()
				bo := ci.If.Cond
				pol := true
				for {
					if u, ok := bo.(*ssa.UnOp); ok && u.Op == token.NOT {
						bo = u.X
						pol = !pol
						continue
					}
					break
				}
				nilIdx := 1 // successor taken when the local is nil
				if (bo.(*ssa.BinOp).Op == token.EQL) == pol {
					nilIdx = 0
				}
				cut[edge{b.Index, b.Succs[nilIdx].Index}] = true
			}
			bad := ""
			var assign func(p *ssa.Phi, depth int)
			seenPhi := map[*ssa.Phi]bool{}
			assign = func(p *ssa.Phi, depth int) {
				if seenPhi[p] || depth > 6 {
					return
				}
				seenPhi[p] = true
				for ei, e := range p.Edges {
					if p2, ok := e.(*ssa.Phi); ok {
						assign(p2, depth+1)
						continue
					}
					if kc, ok := e.(*ssa.Const); ok && kc.IsNil() {
						continue
					}
					from := p.Block().Preds[ei]
					seen := reachableBlocks(fn, from.Index, cut, map[int]bool{call.Block().Index: true})
					for bi, ok := range seen {
						if !ok {
							continue
						}
						blk := fn.Blocks[bi]
						if ret, isRet := blk.Instrs[len(blk.Instrs)-1].(*ssa.Return); isRet && isSuccessReturn(ret) {
							bad = c.Pos(posOf(ret))
						}
					}
				}
			}
			assign(phi, 0)
			if bad == "" {
				r.ok(key, c.Pos(call.Pos()), FuncName(fn), what, "deferred comparison, but no success return lies between the scan and it")
			} else {
				r.fail(key, c.Pos(call.Pos()), FuncName(fn), what, "the comparison is deferred until after the scan, and the return at "+bad+" lies in between: parameter sets sent in a unit of their own (no picture) are forgotten, the change forces no cut and the init segment keeps the old parameters")
			}
		})
	}
	r.Instances = n
	return r
}

// controlsValue: cond is the branch condition of a predecessor of a (short-circuit) phi in the expression tree of v.
func controlsValue(cond ssa.Value, v ssa.Value) bool {
	seen := map[ssa.Value]bool{}
	var walk func(x ssa.Value, depth int) bool
	walk = func(x ssa.Value, depth int) bool {
		if x == nil || seen[x] || depth > 12 {
			return false
		}
		seen[x] = true
		switch y := x.(type) {
		case *ssa.Phi:
			for k, e := range y.Edges {
				pred := y.Block().Preds[k]
				if iff, ok := pred.Instrs[len(pred.Instrs)-1].(*ssa.If); ok {
					c := iff.Cond
					for {
						if u, ok := c.(*ssa.UnOp); ok && u.Op == token.NOT {
							c = u.X
							continue
						}
						break
					}
					if c == cond {
						return true
					}
				}
				if walk(e, depth+1) {
					return true
				}
			}
		case *ssa.UnOp:
			return walk(y.X, depth+1)
		case *ssa.BinOp:
			return walk(y.X, depth+1) || walk(y.Y, depth+1)
		}
		return false
	}
	return walk(v, 0)
}

func init() {
	registerRule("F7c", "URI bases: in the primary downloader every URI taken from the multivariant playlist (variant, renditions) is resolved against the multivariant playlist's own URL", ruleF7c)
	registerRule("F7b", "mode selection: the unthrottled Low-Latency loop, which relies on the server blocking its requests, is entered only if the playlist advertises CAN-BLOCK-RELOAD (and a preload hint)", ruleF7b)
	registerRule("V4f", "nil results: a pointer returned by a library function that can return nil is tested against nil before client code dereferences it", ruleV4f)
	registerRule("T9", "entry points agree on line endings: every exported decoder entry point reaches the same carriage-return handling (all of them, or none)", ruleT9)
	registerRule("G11b", "the user-marked default rendition is looked for among the audio tracks only: the scan that sets hasDefaultAudio tests isVideo of the track it is looking at", ruleG11b)
	registerRule("F25", "FIFO queue shape: the client's segment queue is only ever extended by append and shortened by dropping its head; an in-place shift copies towards the front (copy(q, q[1:])), never towards the back", ruleF25)
}

func ruleF7c(c *Ctx) *RuleResult {
	r := &RuleResult{Floor: 2, FloorWhat: "URIs of the multivariant playlist resolved by the primary downloader"}
	abs := c.Func("", "clientAbsoluteURL")
	run := c.Method("", "clientPrimaryDownloader", "run")
	baseF := c.Field("", "clientPrimaryDownloader", "primaryPlaylistURL")
	if abs == nil || run == nil || baseF == nil {
		r.undecided("clientAbsoluteURL / clientPrimaryDownloader.run / primaryPlaylistURL not found")
		return r
	}
	n := 0
	for _, fn := range withAnon(run) {
		allInstrs(fn, func(in ssa.Instruction) {
			call, ok := in.(*ssa.Call)
			if !ok || call.Call.StaticCallee() != abs {
				return
			}
			n++
			key := fmt.Sprintf("%s|base#%d", FuncName(fn), n)
			what := "the URI is resolved against the multivariant playlist's URL"
			if f, _ := loadedField(canon(call.Call.Args[0])); f == baseF {
				r.ok(key, c.Pos(call.Pos()), FuncName(fn), what, "d.primaryPlaylistURL")
			} else {
				r.fail(key, c.Pos(call.Pos()), FuncName(fn), what, "the base is "+describeVal(canon(call.Call.Args[0]))+": a relative rendition URI is resolved against the variant's (or the previous rendition's) playlist, so its playlist, MAP and segments are requested from the wrong directory")
			}
		})
	}
	r.Instances = n
	return r
}

func ruleF7b(c *Ctx) *RuleResult {
	r := &RuleResult{Floor: 1, FloorWhat: "entries into the Low-Latency loop"}
	ll := c.Method("", "clientStreamDownloader", "runLowLatency")
	cbr := c.Field("pkg/playlist", "MediaServerControl", "CanBlockReload")
	if ll == nil || cbr == nil {
		r.undecided("runLowLatency / MediaServerControl.CanBlockReload not found")
		return r
	}
	n := 0
	for _, e := range c.callersOf(ll) {
		if e.Site == nil {
			continue
		}
		fn := e.Caller.Func
		call, ok := e.Site.(ssa.Instruction)
		if !ok {
			continue
		}
		n++
		key := fmt.Sprintf("%s|low-latency-entry#%d", FuncName(fn), n)
		what := "runLowLatency is entered only if CAN-BLOCK-RELOAD is advertised"
		conds := ifsOnV(fn, func(v ssa.Value) bool { f, _ := loadedField(v); return f == cbr })
		if len(conds) > 0 && onlyIf(fn, call, conds, true) {
			r.ok(key, c.Pos(call.Pos()), FuncName(fn), what, "control dependent on ServerControl.CanBlockReload")
		} else {
			r.fail(key, c.Pos(call.Pos()), FuncName(fn), what, "not guarded by CanBlockReload: against a server that answers reloads at once the loop has no throttle, re-queues the same part without bound and the look-ahead is unbounded")
		}
	}
	r.Instances = n
	return r
}

func ruleV4f(c *Ctx) *RuleResult {
	r := &RuleResult{Floor: 3, FloorWhat: "dereferenced results of nil-returning library functions in client code"}
	// library functions with a pointer result that return a nil constant on some path
	mayNil := map[*ssa.Function]int{} // result index
	for _, g := range c.Funcs {
		if !InRootPkg(g) {
			continue
		}
		res := g.Signature.Results()
		for i := 0; i < res.Len(); i++ {
			if _, ok := res.At(i).Type().Underlying().(*types.Pointer); !ok {
				continue
			}
			// functions that also return an error report nil through the error
			hasErr := false
			for j := 0; j < res.Len(); j++ {
				if types.Identical(res.At(j).Type(), types.Universe.Lookup("error").Type()) {
					hasErr = true
				}
			}
			if hasErr {
				continue
			}
			for _, b := range g.Blocks {
				if ret, ok := b.Instrs[len(b.Instrs)-1].(*ssa.Return); ok && i < len(ret.Results) {
					if k, ok := retVal(ret, i).(*ssa.Const); ok && k.IsNil() {
						mayNil[g] = i
					}
				}
			}
		}
	}
	n := 0
	per := map[*ssa.Function]int{}
	for _, fn := range c.clientFuncs() {
		allInstrs(fn, func(in ssa.Instruction) {
			call, ok := in.(*ssa.Call)
			if !ok {
				return
			}
			idx, ok := mayNil[call.Call.StaticCallee()]
			if !ok {
				return
			}
			var res ssa.Value = call
			if call.Call.Signature().Results().Len() > 1 {
				res = nil
				for _, ref := range *call.Referrers() {
					if ex, ok := ref.(*ssa.Extract); ok && ex.Index == idx {
						res = ex
					}
				}
			}
			if res == nil || res.Referrers() == nil {
				return
			}
			for _, ref := range *res.Referrers() {
				deref := false
				switch x := ref.(type) {
				case *ssa.FieldAddr:
					deref = x.X == res
				case *ssa.UnOp:
					deref = x.Op == token.MUL && x.X == res
				}
				if !deref {
					continue
				}
				n++
				per[fn]++
				key := fmt.Sprintf("%s|deref of %s#%d", FuncName(fn), call.Call.StaticCallee().Name(), per[fn])
				what := "the result of " + call.Call.StaticCallee().Name() + " (nil when nothing is found) is tested before it is dereferenced"
				if nonNilValue(res, ref, 0) {
					r.ok(key, c.Pos(posOf(ref)), FuncName(fn), what, "dominated by a non-nil test")
				} else {
					r.fail(key, c.Pos(posOf(ref)), FuncName(fn), what, "no non-nil test dominates this dereference: a segment that lacks what the function looks for (e.g. no data of the leading track) makes a pool goroutine panic instead of ending the client with an error")
				}
			}
		})
	}
	r.Instances = n
	return r
}

func ruleT9(c *Ctx) *RuleResult {
	r := &RuleResult{Floor: 3, FloorWhat: "exported decoder entry points"}
	entries := []*ssa.Function{c.Method("pkg/playlist", "Media", "Unmarshal"), c.Method("pkg/playlist", "Multivariant", "Unmarshal"), c.Func("pkg/playlist", "Unmarshal")}
	handlesCR := func(root *ssa.Function) (bool, string) {
		found, where := false, ""
		for g := range c.reach([]*ssa.Function{root}, func(f *ssa.Function) bool { return !InLib(f) }) {
			allInstrs(g, func(in ssa.Instruction) {
				for _, op := range in.Operands(nil) {
					if op == nil || *op == nil {
						continue
					}
					k, ok := (*op).(*ssa.Const)
					if !ok || k.Value == nil {
						continue
					}
					if iv, ok := constInt(k); ok && iv == 13 {
						if b, isB := k.Type().Underlying().(*types.Basic); isB && (b.Kind() == types.Uint8 || b.Kind() == types.Int32 || b.Kind() == types.UntypedRune) {
							found, where = true, FuncName(g)
						}
					}
					if sv, ok := constString(k); ok && strings.Contains(sv, "\r") {
						found, where = true, FuncName(g)
					}
				}
			})
		}
		return found, where
	}
	type res struct {
		fn    *ssa.Function
		has   bool
		where string
	}
	var rs []res
	for _, e := range entries {
		if e == nil {
			r.undecided("a decoder entry point was not found")
			return r
		}
		h, w := handlesCR(e)
		rs = append(rs, res{e, h, w})
	}
	any := false
	for _, x := range rs {
		if x.has {
			any = true
		}
	}
	for _, x := range rs {
		key := FuncName(x.fn) + "|carriage-return"
		what := "this entry point handles CR LF line endings like its siblings"
		switch {
		case x.has:
			r.ok(key, c.Pos(x.fn.Pos()), FuncName(x.fn), what, "reaches the handling in "+x.where)
		case !any:
			r.ok(key, c.Pos(x.fn.Pos()), FuncName(x.fn), what, "no entry point handles CR (consistent)")
		default:
			r.fail(key, c.Pos(x.fn.Pos()), FuncName(x.fn), what, "a sibling entry point strips carriage returns but this one does not reach any such code: the CR LF rendering of a playlist decodes through one entry point and is rejected (or decodes differently) through this one")
		}
	}
	r.Instances = len(rs)
	return r
}

func ruleG11b(c *Ctx) *RuleResult {
	r := &RuleResult{Floor: 1, FloorWhat: "scans for the user-marked default rendition"}
	start := c.Method("", "Muxer", "Start")
	isVid := c.Func("", "isVideo")
	defF := c.Field("", "Track", "IsDefault")
	if start == nil || isVid == nil || defF == nil {
		r.undecided("Muxer.Start / isVideo / Track.IsDefault not found")
		return r
	}
	n := 0
	// loop headers carrying a bool flag that becomes true under a test of Track.IsDefault
	for _, h := range start.Blocks {
		for _, in := range h.Instrs {
			phi, ok := in.(*ssa.Phi)
			if !ok {
				break
			}
			if b, ok := phi.Type().Underlying().(*types.Basic); !ok || b.Kind() != types.Bool || phi.Comment == "" || strings.HasPrefix(phi.Comment, "binop") {
				continue
			}
			for k, e := range phi.Edges {
				bv, isB := constBool(e)
				if !isB || !bv || !h.Dominates(h.Preds[k]) {
					continue
				}
				setBlock := h.Preds[k]
				// is the set controlled by a test of IsDefault?
				defConds := ifsOn(start, func(v ssa.Value) bool { f, _ := loadedField(v); return f == defF })
				var dc []condIf
				for _, ci := range defConds {
					if h.Dominates(ci.If.Block()) {
						dc = append(dc, ci)
					}
				}
				first := setBlock.Instrs[0]
				if len(dc) == 0 || !onlyIf(start, first, dc, true) {
					continue
				}
				n++
				key := fmt.Sprintf("Muxer.Start|%s-audio-only#%d", phi.Comment, n)
				what := "the flag is set only for a track that is not a video track"
				vc := ifsOnV(start, func(v ssa.Value) bool {
					call, ok := v.(*ssa.Call)
					return ok && call.Call.StaticCallee() == isVid && h.Dominates(call.Block())
				})
				if len(vc) > 0 && onlyIf(start, first, vc, false) {
					r.ok(key, c.Pos(posOf(first)), FuncName(start), what, "control dependent on !isVideo(track.Codec) of the track under the loop")
				} else {
					r.fail(key, c.Pos(posOf(first)), FuncName(start), what, "the set is not guarded by !isVideo of the scanned track: a video track carrying IsDefault counts as a user-marked default rendition, and then no audio rendition (or a rejected track list) results")
				}
			}
		}
	}
	r.Instances = n
	return r
}

// shiftsQueue: fn moves the entries of the queue one place towards the front (copy(q, q[1:]) or an element loop).
func shiftsQueue(fn *ssa.Function, qF *types.Var) bool {
	found := false
	allInstrs(fn, func(in ssa.Instruction) {
		switch x := in.(type) {
		case *ssa.Call:
			if b, ok := x.Call.Value.(*ssa.Builtin); ok && b.Name() == "copy" {
				if sl, ok := x.Call.Args[1].(*ssa.Slice); ok && sl.Low != nil {
					if f, _ := loadedField(sl.X); f == qF {
						found = true
					}
				}
			}
		case *ssa.Store:
			if ia, ok := x.Addr.(*ssa.IndexAddr); ok {
				if f, _ := loadedField(ia.X); f == qF {
					if ld, ok := x.Val.(*ssa.UnOp); ok && ld.Op == token.MUL {
						if ia2, ok := ld.X.(*ssa.IndexAddr); ok {
							if add, ok := ia2.Index.(*ssa.BinOp); ok && add.Op == token.ADD && add.X == ia.Index {
								found = true
							}
						}
					}
				}
			}
		}
	})
	return found
}

func ruleF25(c *Ctx) *RuleResult {
	r := &RuleResult{Floor: 2, FloorWhat: "modifications of the client segment queue"}
	qF := c.Field("", "clientSegmentQueue", "queue")
	if qF == nil {
		r.undecided("clientSegmentQueue.queue not found")
		return r
	}
	fromQueue := func(v ssa.Value) (bool, *ssa.Slice) {
		if sl, ok := v.(*ssa.Slice); ok {
			if f, _ := loadedField(sl.X); f == qF {
				return true, sl
			}
		}
		f, _ := loadedField(v)
		return f == qF, nil
	}
	n := 0
	per := map[*ssa.Function]int{}
	for _, fn := range c.Funcs {
		if !InRootPkg(fn) {
			continue
		}
		allInstrs(fn, func(in ssa.Instruction) {
			switch x := in.(type) {
			case *ssa.Store:
				if f, _ := fieldOfAddr(x.Addr); f == qF {
					n++
					per[fn]++
					key := fmt.Sprintf("%s|queue-store#%d", FuncName(fn), per[fn])
					what := "the queue is replaced by append(queue, x), by queue[1:] or (after a shift) by queue[:len-1]"
					switch v := x.Val.(type) {
					case *ssa.Call:
						if b, ok := v.Call.Value.(*ssa.Builtin); ok && b.Name() == "append" {
							if is, _ := fromQueue(v.Call.Args[0]); is {
								r.ok(key, c.Pos(x.Pos()), FuncName(fn), what, "append")
								return
							}
						}
					case *ssa.Slice:
						if f, _ := loadedField(v.X); f == qF {
							if v.Low == nil && v.High != nil && !shiftsQueue(fn, qF) {
								r.fail(key, c.Pos(x.Pos()), FuncName(fn), what, "queue[:n] drops the tail although nothing shifted the entries towards the front: the newest entry (possibly the end-of-stream marker) is lost, or — if an entry was moved into the head first — the order of delivery changes")
								return
							}
							r.ok(key, c.Pos(x.Pos()), FuncName(fn), what, "re-slice")
							return
						}
					case *ssa.Const:
						if v.IsNil() {
							r.ok(key, c.Pos(x.Pos()), FuncName(fn), what, "reset")
							return
						}
					}
					r.undecided("F25: %s stores %s into the queue: form not known to the rule", FuncName(fn), x.Val.String())
				}
				// a store into an element of the queue: only clearing (nil) or a forward shift q[i] = q[i+1]
				if ia, ok := x.Addr.(*ssa.IndexAddr); ok {
					if f, _ := loadedField(ia.X); f == qF {
						n++
						per[fn]++
						key := fmt.Sprintf("%s|queue-elem-store#%d", FuncName(fn), per[fn])
						what := "an entry of the queue is only cleared or shifted one place towards the front"
						if k, isC := x.Val.(*ssa.Const); isC && k.IsNil() {
							r.ok(key, c.Pos(x.Pos()), FuncName(fn), what, "cleared")
							return
						}
						if ld, ok := x.Val.(*ssa.UnOp); ok && ld.Op == token.MUL {
							if ia2, ok := ld.X.(*ssa.IndexAddr); ok {
								if f2, _ := loadedField(ia2.X); f2 == qF {
									if add, ok := ia2.Index.(*ssa.BinOp); ok && add.Op == token.ADD && add.X == ia.Index {
										if one, ok := constInt(add.Y); ok && one == 1 {
											r.ok(key, c.Pos(x.Pos()), FuncName(fn), what, "q[i] = q[i+1]")
											return
										}
									}
								}
							}
						}
						r.fail(key, c.Pos(x.Pos()), FuncName(fn), what, "queue["+describeVal(ia.Index)+"] is overwritten with "+describeVal(x.Val)+": entries change place, so segments are processed out of download order (or the end-of-stream marker overtakes a segment) whenever three or more are queued")
					}
				}
			case *ssa.Call:
				b, ok := x.Call.Value.(*ssa.Builtin)
				if !ok || b.Name() != "copy" {
					return
				}
				dq, dsl := fromQueue(x.Call.Args[0])
				sq, ssl := fromQueue(x.Call.Args[1])
				if !dq && !sq {
					return
				}
				n++
				per[fn]++
				key := fmt.Sprintf("%s|queue-shift#%d", FuncName(fn), per[fn])
				what := "an in-place shift of the queue copies towards the front"
				low := func(sl *ssa.Slice) int64 {
					if sl == nil || sl.Low == nil {
						return 0
					}
					k, _ := constInt(sl.Low)
					return k
				}
				switch {
				case dq && sq && low(dsl) == 0 && low(ssl) >= 1:
					r.ok(key, c.Pos(x.Pos()), FuncName(fn), what, "copy(q, q[1:])")
				case dq && sq && low(dsl) >= 1 && low(ssl) == 0:
					r.fail(key, c.Pos(x.Pos()), FuncName(fn), what, "copy(q[1:], q) shifts towards the back: the head is duplicated and the second entry (possibly the end-of-stream marker) is lost whenever two or more segments are queued")
				default:
					r.undecided("F25: %s copies into / out of the queue in a form not known to the rule", FuncName(fn))
				}
			}
		})
	}
	r.Instances = n
	return r
}
